#!/bin/sh
# Build the framework offline from files on disk: the Rust harness (path deps on /repo) and a SANY pass over every spec.
set -e
cd "$(dirname "$0")"
export CARGO_NET_OFFLINE=true
[ -f harness/Cargo.lock ] || cp /repo/Cargo.lock harness/Cargo.lock
(cd harness && cargo build --offline --quiet)
cargo build --offline --quiet --manifest-path /repo/Cargo.toml -p duckscript_cli --target-dir harness/target/cli
mkdir -p work evidence replays
for f in spec/*.tla; do
  (cd spec && java -cp /opt/veriftools/tla/tla2tools.jar:/opt/veriftools/tla/CommunityModules-deps.jar tla2sany.SANY "$(basename "$f")" >/dev/null 2>&1) || { echo "SANY failed on $f"; exit 1; }
done
echo setup ok
