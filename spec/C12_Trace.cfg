CONSTANTS MaxH = 60
SPECIFICATION Spec
POSTCONDITION Done
CHECK_DEADLOCK FALSE
