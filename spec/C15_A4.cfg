CONSTANTS
  Names <- Names4
  Descs <- Descs4
SPECIFICATION Spec
VIEW View
INVARIANT NoDanglingAlias
INVARIANT INoDanglingAlias
INVARIANT ImplRefines
INVARIANT Emit
PROPERTY RefusedSetIsNoOp
PROPERTY AcceptedSetReachable
PROPERTY RemoveExact
CHECK_DEADLOCK FALSE
