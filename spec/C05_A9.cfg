CONSTANTS MaxLines = 9 MaxDepth = 3 C0 = 1 Budget = 60 Scoped = {FALSE} CondCalls = FALSE EMIT = FALSE
SPECIFICATION Spec
INVARIANT Refines
INVARIANT EmitProg

CHECK_DEADLOCK FALSE
