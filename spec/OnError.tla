------------------------------- MODULE OnError -------------------------------
(* C10.  R-level of the SDK's error protocol on top of the runner: whenever a library command reports
   an error its output variable becomes "false", get_last_error / _line / _source return that error's
   message and the source line and file of the instruction the runner was executing, and the script
   continues; after exit_on_error true the first error stops the script with a failure carrying the
   message and the failing line.
   A program is a fixed prologue (a function ff that fails with its argument, an array) followed by
   items; every item is rendered to script lines by Lines (so the spec owns the line numbering):
     [k |-> "fail", ctx, m]   a failing command (trigger_error / assert_error) with message m
          ctx: top | fn (inside the body of ff, called here) | loop (inside a 2-iteration for: fails twice)
               | branch (inside if true) | script (a script-implemented command, array_join, fails: the error
               surfaces at the caller's line with the command's own message) | loopscript (the same inside a for loop)
               | incl (in an included file)
     [k |-> "eoe", on, sp]    exit_on_error <sp>: sp is a spelling of the flag; on = its documented truth value
                              (falsy: "", 0, false, no - case-insensitively; everything else is truthy)
     [k |-> "seterr"]         set_error se : replaces the last error's message without the on_error flow (the flag, the output
                              variable and the run are untouched); the line / source it leaves are not documented and are
                              normalised to 0 / "" by the harness when the message is "se"
     [k |-> "obs"]            e/l/s = get_last_error / _line / _source ; emit e l s o
   Exec folds the items into the list of observations and the outcome. *)
EXTENDS Naturals, Sequences, TLC, FiniteSets
Prologue == 4          \* fn ff / o = trigger_error ${1} / end / arr = array 1 2
Size(it) == CASE it.k = "fail" -> (IF it.ctx \in {"loop", "branch", "loopscript"} THEN 3 ELSE 1) [] it.k = "eoe" -> 1 [] it.k = "seterr" -> 1 [] it.k = "obs" -> 4
RECURSIVE StartOf(_,_)
StartOf(items, k) == IF k = 1 THEN Prologue + 1 ELSE StartOf(items, k-1) + Size(items[k-1])
\* where (file, line) the failing instruction is: "M" = the main script, "I" = the included file
ErrAt(items, k) == LET it == items[k]  s == StartOf(items, k) IN
   CASE it.ctx = "top" -> [file |-> "M", line |-> s]
     [] it.ctx = "fn" -> [file |-> "M", line |-> 2]
     [] it.ctx \in {"loop", "branch", "loopscript"} -> [file |-> "M", line |-> s + 1]
     [] it.ctx = "script" -> [file |-> "M", line |-> s]
     [] it.ctx = "incl" -> [file |-> "I", line |-> 1]
NoErr == [msg |-> "", file |-> "", line |-> 0]
\* state: last = last error, eoe = exit_on_error flag, o = the failing commands' output variable, obs = observations so far
RECURSIVE Run(_,_,_)
Run(items, k, st) ==
  IF k > Len(items) THEN [ok |-> TRUE, obs |-> st.obs, msg |-> "", file |-> "", line |-> 0]
  ELSE LET it == items[k] IN
    CASE it.k = "eoe" -> Run(items, k+1, [st EXCEPT !.eoe = it.on])
      [] it.k = "seterr" -> Run(items, k+1, [st EXCEPT !.last = [msg |-> "se", file |-> "", line |-> 0]])
      [] it.k = "obs" -> Run(items, k+1, [st EXCEPT !.obs = Append(@, [msg |-> st.last.msg, file |-> st.last.file, line |-> st.last.line, o |-> st.o])])
      [] it.k = "fail" ->
           LET at == ErrAt(items, k)  e == [msg |-> it.m, file |-> at.file, line |-> at.line] IN
           IF st.eoe THEN [ok |-> FALSE, obs |-> st.obs, msg |-> it.m, file |-> at.file, line |-> at.line]
           ELSE Run(items, k+1, [st EXCEPT !.last = e, !.o = "false"])        \* in a loop it fails twice: same error both times
Exec(items) == Run(items, 1, [last |-> NoErr, eoe |-> FALSE, o |-> "", obs |-> <<>>])
\* loopscript: a script-implemented command (array_join on a non-handle) failing inside a 2-iteration for loop: it fails
\* twice at the same line, the loop completes, and the last error stays that command's error
Ctxs == {"top", "fn", "loop", "branch", "script", "loopscript", "incl"}
Spellings == {"true", "1", "yes", "false", "0", "no"}
Truthy(sp) == sp \in {"true", "1", "yes"}
EoeItems == { [k |-> "eoe", on |-> Truthy(sp), sp |-> sp] : sp \in Spellings }
=============================================================================
