------------------------------- MODULE C18_MC -------------------------------
(* Leg A of C18: every consistent tree of the universe x every operation; sanity of the reference (the
   result of every operation is a well-formed tree, a failing operation leaves the tree unchanged,
   mv = cp ; rm on files); all cases with expected tree and output are written for the replay into
   the real file commands (the state is externally constructible, so no operation path is needed). *)
EXTENDS FileTree, Json, IOUtils, SequencesExt
Cases == { [tree |-> t, op |-> op, exp |-> Eff(op, t)] : t \in Trees, op \in Ops }
Real == { c \in Cases : c.exp.out # "skip" }
ASSUME PrintT(<<"COUNTS", Cardinality(Trees), Cardinality(Real)>>)
ASSUME \A c \in Real : Consistent(c.exp.t)
ASSUME \A c \in Real : c.exp.out = "false" => c.exp.t = c.tree
MvIsCpRm == \A t \in Trees, p \in Sources, q \in FilePaths :
   LET m == Eff([cmd |-> "mv", a |-> <<p, q>>], t)  c == Eff([cmd |-> "cp", a |-> <<p, q>>], t) IN
   (t[p].k = "file" /\ p # q /\ m.out = "true") => (c.out = "true" /\ m.t = Eff([cmd |-> "rm", a |-> <<p>>], c.t).t)
ASSUME MvIsCpRm
ASSUME ndJsonSerialize(IOEnv.OUT, SetToSeq(Real))
VARIABLE x
Init == x = 0
Next == UNCHANGED x
=============================================================================
