CONSTANTS L = 4 EMIT = TRUE
SPECIFICATION Spec
INVARIANT Total
INVARIANT OnePerLine
INVARIANT Emit
CHECK_DEADLOCK FALSE
