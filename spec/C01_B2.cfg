CONSTANTS AL = 1 NA = 2 WIDE = TRUE EMIT = TRUE
SPECIFICATION Spec
INVARIANT TypeOK
INVARIANT RoundTrip
INVARIANT Emit
CHECK_DEADLOCK FALSE
