------------------------------- MODULE C06_Trace -------------------------------
(* Leg C of C06: long random nested condition statements evaluated by the real not / if / elseif /
   while.  R-level (VIOL): the observed decision equals Condition!RefEval.  I-level (DRIFT): equals
   Condition!Impl.  The statement must be well-formed by Condition!WF (binds the harness generator). *)
EXTENDS Condition, Json, IOUtils
Rec == ndJsonDeserialize(IOEnv.TRACE)
VARIABLE l
Check(k, r) ==
  /\ IF WF(r.ts) THEN TRUE ELSE PrintT(<<"HARNESS", ToJson([rec |-> k, why |-> "generated statement is not well-formed"])>>)
  /\ IF r.obs = B(RefEval(r.ts)) THEN TRUE ELSE PrintT(<<"VIOL", ToJson([rec |-> k, consumer |-> r.consumer, ts |-> r.ts, obs |-> r.obs, exp |-> B(RefEval(r.ts))])>>)
  /\ IF r.obs = Impl(r.ts) THEN TRUE ELSE PrintT(<<"DRIFT", ToJson([rec |-> k, consumer |-> r.consumer, ts |-> r.ts, obs |-> r.obs, model |-> Impl(r.ts)])>>)
Init == l = 1
Next == l <= Len(Rec) /\ Check(l, Rec[l]) /\ l' = l + 1
Spec == Init /\ [][Next]_l
Done == PrintT(<<"TRACE_DONE", TLCGet("stats").diameter - 1>>)
=============================================================================
