------------------------------- MODULE C01_Trace -------------------------------
(* Leg C of C01: scripts of random Unicode instructions recorded from the real parser.
   Each record carries the intended instructions, the rendering choices, the text and what
   parse_text returned.  The text must be Syntax!Render of the choices (binds the harness renderer to
   the spec), the real result must be the intended instructions numbered 1..n (R-level verdict: VIOL),
   and must equal Parser!ParseText of the text (I-level agreement: DRIFT). *)
EXTENDS Syntax, Json, IOUtils
Rec == ndJsonDeserialize(IOEnv.TRACE)
VARIABLE l
RECURSIVE Build(_,_,_)
Build(ls, i, eol) == IF i > Len(ls) THEN <<>> ELSE Render(ls[i].ins, ls[i].ch) \o eol \o Build(ls, i+1, eol)
Check(k, r) ==
  LET n == Len(r.lines)
      exp == [t |-> "ok", ins |-> [i \in 1..n |-> Expected(r.lines[i].ins)]]
      dom == \A i \in 1..n : Valid(r.lines[i].ins) /\ ChoiceOK(r.lines[i].ins, r.lines[i].ch)
  IN /\ IF (dom /\ Build(r.lines, 1, r.eol) = r.text) THEN TRUE ELSE PrintT(<<"HARNESS", ToJson([rec |-> k, why |-> "recorded text is not Syntax!Render of the recorded choices"])>>)
     /\ IF (r.parsed = exp /\ r.linenos = [i \in 1..n |-> i]) THEN TRUE ELSE PrintT(<<"VIOL", ToJson([rec |-> k, text |-> r.text, expected |-> exp, got |-> r.parsed, linenos |-> r.linenos])>>)
     /\ IF (NormText(ParseText(r.text)) = r.parsed) THEN TRUE ELSE PrintT(<<"DRIFT", ToJson([rec |-> k, text |-> r.text, model |-> NormText(ParseText(r.text)), real |-> r.parsed])>>)
Init == l = 1
Next == l <= Len(Rec) /\ Check(l, Rec[l]) /\ l' = l + 1
Spec == Init /\ [][Next]_l
Done == PrintT(<<"TRACE_DONE", TLCGet("stats").diameter - 1>>)
=============================================================================
