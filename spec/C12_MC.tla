------------------------------- MODULE C12_MC -------------------------------
(* Leg A of C12: the complete reachable state graph of Handles under size bounds; invariants of the
   reference (a failed operation changes nothing; ids are never reused; kinds never change); every
   state prints a shortest path and the expected result of every operation for the replay. *)
EXTENDS Handles, Json
CONSTANTS MaxSize
\* "@h1" = the handle text of h1 used as an ordinary value / key: collections hold strings, so storing a handle in
\* another collection links nothing - no operation on the holder may touch h1 (and vice versa)
Vals == {"u", "@h1", ""}
Keys == {"u", "@h1"}
Refs == {"h1", "h2", "bogus"} \cup (IF MaxH > 2 THEN {"h3"} ELSE {})
VARIABLES st, path
Op(c, h, a) == [cmd |-> c, h |-> h, args |-> a]
Ops == { Op("array", "", a) : a \in {<<>>, <<"u">>, <<"v", "">>} } \cup { Op("map", "", <<>>) } \cup { Op("set_new", "", a) : a \in {<<>>, <<"u", "">>} }
   \cup { Op("range", "", a) : a \in {<<"1", "3">>, <<"2", "2">>, <<"3", "1">>, <<"zz", "2">>} }
   \cup { Op(c, h, <<>>) : c \in {"is_array", "is_map", "is_set", "release", "array_pop", "array_clear", "array_length", "array_is_empty", "map_size", "map_keys", "map_clear",
                                  "map_is_empty", "set_size", "set_clear", "set_to_array", "set_is_empty", "set_from_array"}, h \in Refs }
   \cup { Op(c, h, <<v>>) : c \in {"array_push", "array_contains", "set_put", "set_remove", "set_contains", "map_contains_value"}, h \in Refs, v \in Vals }
   \cup { Op("array_push", h, <<"u", "v">>) : h \in Refs }
   \cup { Op(c, h, <<i>>) : c \in {"array_get", "array_remove"}, h \in Refs, i \in {"0", "1", "2", "zz"} }
   \cup { Op("array_set", h, <<i, v>>) : h \in Refs, i \in {"0", "1", "3", "zz"}, v \in {"u", ""} }
   \cup { Op("array_join", h, <<",">>) : h \in Refs } \cup { Op("array_concat", h, <<g>>) : h \in Refs, g \in Refs }
   \cup { Op(c, h, <<k>>) : c \in {"map_get", "map_remove", "map_contains_key"}, h \in Refs, k \in Keys }
   \cup { Op("map_put", h, <<k, v>>) : h \in Refs, k \in Keys, v \in Vals }
Init == st = [hs |-> <<>>, next |-> 0] /\ path = <<>>
SizeOK(s) == \A i \in DOMAIN s.hs : LET x == s.hs[i] IN
                IF x.k = "list" THEN Len(x.v) <= MaxSize ELSE IF x.k = "map" THEN Cardinality(DOMAIN x.v) <= MaxSize ELSE Cardinality(x.v) <= MaxSize
Issued(op) == \A i \in 1..Len(op.args) : op.args[i] = "@h1" => st.next >= 1        \* a handle text exists once the handle was issued
Do(op) == LET e == Eff(op, st) IN Issued(op) /\ e.st.next <= MaxH /\ SizeOK(e.st) /\ st' = e.st /\ path' = Append(path, op)
Next == \E op \in Ops : Do(op)
Spec == Init /\ [][Next]_<<st, path>>
View == st
FailedOpChangesNothing == \A op \in Ops : Eff(op, st).out = False => Eff(op, st).st = st
IdsNeverReused == \A i \in DOMAIN st.hs : i <= st.next
Exp(op) == LET e == Eff(op, st) IN [op |-> op, out |-> e.out, st |-> e.st, feasible |-> (e.st.next <= MaxH /\ SizeOK(e.st)), issued |-> Issued(op)]
OpsSeq == SetToSeq(Ops)
Emit == PrintT(<<"REPLAY", ToJson([path |-> path, st |-> st, next |-> [i \in 1..Len(OpsSeq) |-> Exp(OpsSeq[i])]])>>)
=============================================================================
