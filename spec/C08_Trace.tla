------------------------------- MODULE C08_Trace -------------------------------
(* Leg C of C08: arbitrary texts recorded from the real parser.  R-level (VIOL): the parse terminated
   without a panic; an Ok result has exactly one instruction per input line numbered 1..n with
   blank / comment lines empty; an Err result names a line that exists.  I-level (DRIFT): the
   result equals Parser!ParseText. *)
EXTENDS Parser, Json, IOUtils
Rec == ndJsonDeserialize(IOEnv.TRACE)
VARIABLE l
Blank(cs) == LET t == Trim(cs) IN t = <<>> \/ t[1] = HASH
Bang(cs) == LET t == Trim(cs) IN t # <<>> /\ t[1] = BANG
ROk(r) == LET ls == Lines(r.text) IN
   CASE r.parsed.t = "ok" -> /\ Len(r.parsed.ins) = Len(ls) /\ r.linenos = [i \in 1..Len(ls) |-> i]
                             /\ \A i \in 1..Len(ls) : Blank(ls[i]) => r.parsed.ins[i] = [t |-> "empty"]
                             \* a line whose first non-blank character is '!' is a pre-processor directive and nothing else
                             /\ \A i \in 1..Len(ls) : Bang(ls[i]) <=> r.parsed.ins[i].t = "pre"
     [] r.parsed.t = "err" -> r.parsed.line \in 1..Len(ls) /\ ~Blank(ls[r.parsed.line])
     [] OTHER -> FALSE
Check(k, r) ==
     /\ IF ROk(r) THEN TRUE ELSE PrintT(<<"VIOL", ToJson([rec |-> k, text |-> r.text, got |-> r.parsed])>>)
     /\ IF (NormText(ParseText(r.text)) = r.parsed) THEN TRUE ELSE PrintT(<<"DRIFT", ToJson([rec |-> k, text |-> r.text, model |-> NormText(ParseText(r.text)), real |-> r.parsed])>>)
Init == l = 1
Next == l <= Len(Rec) /\ Check(l, Rec[l]) /\ l' = l + 1
Spec == Init /\ [][Next]_l
Done == PrintT(<<"TRACE_DONE", TLCGet("stats").diameter - 1>>)
=============================================================================
