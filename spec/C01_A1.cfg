CONSTANTS AL = 2 NA = 1 WIDE = TRUE EMIT = TRUE
SPECIFICATION Spec
INVARIANT TypeOK
INVARIANT RoundTrip
INVARIANT InScript
INVARIANT Emit
CHECK_DEADLOCK FALSE
