------------------------------- MODULE C09_Trace -------------------------------
(* Leg C of C09: random Unicode argument values through the real if / elseif / while / not / alias.
   Each record: wrapper, values, variables, whether the capture command was invoked exactly once and
   what it received.  R-level (VIOL): it received exactly the values.  I-level (DRIFT): it received
   what EvalWrap!Wrapped predicts. *)
EXTENDS EvalWrap, Json, IOUtils, SequencesExt
Rec == ndJsonDeserialize(IOEnv.TRACE)
VARIABLE l
CMD == <<99, 97, 112>>
EnvMap(e) == [k \in {e[i].k : i \in 1..Len(e)} |-> e[CHOOSE i \in 1..Len(e) : e[i].k = k].v]
Check(k, r) ==
  LET obs == [ok |-> r.invoked, args |-> r.received]
      w == Wrapped(CMD, r.args, EnvMap(r.env))
  IN /\ IF obs = Identity(r.args) THEN TRUE
        ELSE PrintT(<<"VIOL", ToJson([rec |-> k, wrapper |-> r.wrapper, args |-> r.args, invoked |-> r.invoked, received |-> r.received,
                                      same |-> (obs = w), cls |-> SetToSeq(ClassAll(r.args))])>>)
     /\ IF obs = w THEN TRUE ELSE PrintT(<<"DRIFT", ToJson([rec |-> k, wrapper |-> r.wrapper, args |-> r.args, model |-> w, real |-> obs])>>)
Init == l = 1
Next == l <= Len(Rec) /\ Check(l, Rec[l]) /\ l' = l + 1
Spec == Init /\ [][Next]_l
Done == PrintT(<<"TRACE_DONE", TLCGet("stats").diameter - 1>>)
=============================================================================
