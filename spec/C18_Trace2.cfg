CONSTANT Pool = 2
SPECIFICATION Spec
POSTCONDITION Done
CHECK_DEADLOCK FALSE
