------------------------------- MODULE Flow -------------------------------
(* C04.  Well-nested programs of if / elseif / else, while and for-in blocks.
   Builder (phase "build"): appends one line per step and only produces well-nested flat programs,
   recording as ground truth each opener's middle lines and end line (struct).
   R-level: RunBlock, a tree-walking interpreter over struct (first truthy branch only, while repeats
            while truthy, for binds the loop variable to each element in order, control resumes after
            the block's own end).
   I-level: the flat goto machine of duckscript_sdk/src/sdk/std/flowcontrol: find_commands block scan
            (FC) with each construct's start/middle/end names and start_blocks/end_blocks, the per-construct
            call stacks with their pop-and-discard-until-match lookup, per-line meta caches, the generic
            "end" table filled by the opener.  Command spellings are tokens: "X!" stands for the
            canonical name std::flowcontrol::X, the others are the real aliases.
   Observable: emit lines log <<line, c, i>> (c = a counter decremented by dec, i = the loop variable). *)
EXTENDS Naturals, Sequences, TLC, FiniteSets
CONSTANTS MaxLines, MaxDepth, C0, Budget, Spell, RichCond     \* Spell in {"min", "all"}
Arr == <<1, 2>>
IfNames_      == {"if", "If!"}
ElseIfNames_  == {"elseif", "elif", "ElseIf!"}
ElseNames_    == {"else", "Else!"}
EndIfNames_   == {"end_if", "endif", "fi", "EndIf!"}
WhileNames_   == {"while", "While!"}
EndWhileNames_ == {"end_while", "endwhile", "EndWhile!"}
ForNames_     == {"for", "For!"}
EndForNames_  == {"end_for", "EndFor!"}
FnNames_      == {"function", "fn", "Function!"}
EndFnNames_   == {"end_function", "end_fn", "EndFunction!"}
\* spellings the builder uses
SpIf      == IF Spell = "all" THEN IfNames_ ELSE {"if"}
SpElseIf  == IF Spell = "all" THEN ElseIfNames_ ELSE {"elseif", "ElseIf!"}
SpElse    == IF Spell = "all" THEN ElseNames_ ELSE {"else", "Else!"}
SpEndIf   == IF Spell = "all" THEN EndIfNames_ \cup {"end"} ELSE {"end", "end_if"}
SpWhile   == IF Spell = "all" THEN WhileNames_ ELSE {"while"}
SpEndWhile == IF Spell = "all" THEN EndWhileNames_ \cup {"end"} ELSE {"end", "EndWhile!"}
SpFor     == IF Spell = "all" THEN ForNames_ ELSE {"for"}
SpEndFor  == IF Spell = "all" THEN EndForNames_ \cup {"end"} ELSE {"end", "end_for"}
\* name sets each construct hands to find_commands (ifelse/mod.rs, while_mod/mod.rs, forin/mod.rs)
IfNm == [start |-> IfNames_, middle |-> ElseIfNames_ \cup ElseNames_, end |-> EndIfNames_ \cup {"end"},
         sb |-> FnNames_ \cup ForNames_ \cup WhileNames_, eb |-> EndForNames_ \cup EndFnNames_ \cup EndWhileNames_ \cup {"end"}]
WhNm == [start |-> WhileNames_, middle |-> {}, end |-> EndWhileNames_ \cup {"end"},
         sb |-> FnNames_ \cup ForNames_ \cup IfNames_, eb |-> EndForNames_ \cup EndFnNames_ \cup EndIfNames_ \cup {"end"}]
ForNm == [start |-> ForNames_, middle |-> {}, end |-> EndForNames_ \cup {"end"},
          sb |-> IfNames_ \cup FnNames_ \cup WhileNames_, eb |-> EndIfNames_ \cup EndFnNames_ \cup EndWhileNames_ \cup {"end"}]
IsErr(r) == "err" \in DOMAIN r

VARIABLES phase, prog, open, struct,
          pc, c, i, trace, ifStack, whStack, forStack, ifMeta, whMeta, forMeta, endTab, steps, result
vars == <<phase, prog, open, struct, pc, c, i, trace, ifStack, whStack, forStack, ifMeta, whMeta, forMeta, endTab, steps, result>>
runVars == <<pc, c, i, trace, ifStack, whStack, forStack, ifMeta, whMeta, forMeta, endTab, steps, result>>

\* condition forms: T / F literal values, C = ${c} (truthy while c > 0), E = a boolean expression over ${c},
\* K = a command call gtz ${c}, N = a negated command call (not gtz ${c})
Conds == IF RichCond THEN {"T", "F", "C", "E", "K", "N"} ELSE {"T", "F", "C"}
LoopConds == IF RichCond THEN {"C", "E", "K"} ELSE {"C"}
Truth(cond, cv) == CASE cond = "T" -> TRUE [] cond = "F" -> FALSE [] cond \in {"C", "E", "K"} -> cv > 0 [] cond = "N" -> cv = 0

EmptyF == [x \in {} |-> 0]
Line(cmd, cond) == [cmd |-> cmd, cond |-> cond]
Init == /\ phase = "build" /\ prog = <<>> /\ open = <<>> /\ struct = EmptyF
        /\ pc = 0 /\ c = C0 /\ i = 0 /\ trace = <<>> /\ ifStack = <<>> /\ whStack = <<>> /\ forStack = <<>>
        /\ ifMeta = EmptyF /\ whMeta = EmptyF /\ forMeta = EmptyF /\ endTab = EmptyF /\ steps = 0 /\ result = "none"
n == Len(prog)
Room == n + Len(open) < MaxLines       \* leave room to close every open block
CanOpen == n + Len(open) + 1 < MaxLines /\ Len(open) < MaxDepth
Top == open[Len(open)]
AddSimple == Room /\ \E cmd \in {"emit", "dec"} : prog' = Append(prog, Line(cmd, "T")) /\ UNCHANGED <<open, struct>>
AddIf == CanOpen /\ \E cond \in Conds, sp \in SpIf : prog' = Append(prog, Line(sp, cond))
         /\ open' = Append(open, [k |-> "if", line |-> n, mids |-> <<>>, els |-> FALSE]) /\ UNCHANGED struct
AddWhile == CanOpen /\ \E cond \in LoopConds, sp \in SpWhile : prog' = Append(prog, Line(sp, cond))
            /\ open' = Append(open, [k |-> "while", line |-> n, mids |-> <<>>, els |-> FALSE]) /\ UNCHANGED struct
AddFor == CanOpen /\ \E sp \in SpFor : prog' = Append(prog, Line(sp, "T"))
          /\ open' = Append(open, [k |-> "for", line |-> n, mids |-> <<>>, els |-> FALSE]) /\ UNCHANGED struct
AddElseIf == Room /\ open # <<>> /\ Top.k = "if" /\ ~Top.els
             /\ \E cond \in Conds, sp \in SpElseIf : prog' = Append(prog, Line(sp, cond))
             /\ open' = [open EXCEPT ![Len(open)].mids = Append(@, n)] /\ UNCHANGED struct
AddElse == Room /\ open # <<>> /\ Top.k = "if" /\ ~Top.els
           /\ \E sp \in SpElse : prog' = Append(prog, Line(sp, "T"))
           /\ open' = [open EXCEPT ![Len(open)].mids = Append(@, n), ![Len(open)].els = TRUE] /\ UNCHANGED struct
AddEnd == /\ open # <<>>
          /\ \E sp \in (CASE Top.k = "if" -> SpEndIf [] Top.k = "while" -> SpEndWhile [] Top.k = "for" -> SpEndFor) : prog' = Append(prog, Line(sp, "T"))
          /\ struct' = [x \in DOMAIN struct \cup {Top.line} |-> IF x = Top.line THEN [k |-> Top.k, mids |-> Top.mids, els |-> Top.els, end |-> n] ELSE struct[x]]
          /\ open' = SubSeq(open, 1, Len(open) - 1)
Build == phase = "build" /\ (AddSimple \/ AddIf \/ AddWhile \/ AddFor \/ AddElseIf \/ AddElse \/ AddEnd) /\ phase' = "build" /\ UNCHANGED runVars
Start == phase = "build" /\ open = <<>> /\ n > 0 /\ phase' = "run" /\ UNCHANGED <<prog, open, struct>> /\ UNCHANGED runVars

\* ---------------- R-level: tree walking.  st = [c, i, trace, fuel]; executes lines lo..hi-1
RECURSIVE RunBlock(_,_,_), RunIf(_,_,_,_), RunWhile(_,_), RunFor(_,_,_)
Tick(st) == [st EXCEPT !.fuel = IF @ = 0 THEN 0 ELSE @ - 1]
\* a second counter d (statements setd: d := 17, decd; condition "D": d > 0) gives the reference long inner loops that do
\* not exhaust the counter c of the loops around them (only the recorded programs of leg C use it)
TruthS(cond, st) == IF cond = "D" THEN st.d > 0 ELSE Truth(cond, st.c)
RunBlock(lo, hi, st) ==
  IF lo >= hi \/ st.fuel = 0 THEN st
  ELSE LET ln == prog[lo+1] IN
    IF ln.cmd = "setd" THEN RunBlock(lo+1, hi, Tick([st EXCEPT !.d = 17]))
    ELSE IF ln.cmd = "decd" THEN RunBlock(lo+1, hi, Tick([st EXCEPT !.d = IF @ > 0 THEN @ - 1 ELSE 0]))
    ELSE IF ln.cmd = "emit" THEN RunBlock(lo+1, hi, Tick([st EXCEPT !.trace = Append(@, <<lo, st.c, st.i>>)]))
    ELSE IF ln.cmd = "dec" THEN RunBlock(lo+1, hi, Tick([st EXCEPT !.c = IF @ > 0 THEN @ - 1 ELSE 0]))
    ELSE IF lo \in DOMAIN struct /\ struct[lo].k = "if" THEN RunBlock(struct[lo].end + 1, hi, RunIf(lo, lo, 0, st))
    ELSE IF lo \in DOMAIN struct /\ struct[lo].k = "while" THEN RunBlock(struct[lo].end + 1, hi, RunWhile(lo, st))
    ELSE IF lo \in DOMAIN struct /\ struct[lo].k = "for" THEN RunBlock(struct[lo].end + 1, hi, RunFor(lo, 1, Tick(st)))
    ELSE st
\* the branch headed by line h (the if line or the j-th middle line) of the if at line b
RunIf(b, h, j, st) ==
  LET s == struct[b]
      nextStart == IF j < Len(s.mids) THEN s.mids[j+1] ELSE s.end
      isElse == prog[h+1].cmd \in ElseNames_
  IN IF st.fuel = 0 THEN st
     ELSE IF isElse \/ TruthS(prog[h+1].cond, st) THEN RunBlock(h+1, nextStart, Tick(st))
     ELSE IF j < Len(s.mids) THEN RunIf(b, s.mids[j+1], j+1, Tick(st))
     ELSE st
RunWhile(b, st) == IF st.fuel = 0 THEN st
                   ELSE IF TruthS(prog[b+1].cond, st) THEN RunWhile(b, RunBlock(b+1, struct[b].end, Tick(st)))
                   ELSE st
RunFor(b, k, st) == IF k > Len(Arr) \/ st.fuel = 0 THEN st
                    ELSE RunFor(b, k+1, RunBlock(b+1, struct[b].end, Tick([st EXCEPT !.i = Arr[k]])))
Ref == RunBlock(0, n, [c |-> C0, i |-> 0, d |-> 0, trace |-> <<>>, fuel |-> Budget])

\* ---------------- I-level
\* instruction_query::find_commands (allow_recursive = TRUE for all three constructs)
RECURSIVE FC(_,_,_,_,_)
FC(nm, line, skipTo, delta, mid) ==
  IF line >= n THEN [err |-> "Missing end of structure"]
  ELSE IF line < skipTo THEN FC(nm, line+1, skipTo, delta, mid)
  ELSE LET cmd == prog[line+1].cmd IN
    IF cmd \in nm.sb THEN FC(nm, line+1, skipTo, delta+1, mid)
    ELSE IF cmd \in nm.middle THEN FC(nm, line+1, skipTo, delta, Append(mid, line))
    ELSE IF cmd \in nm.eb /\ delta > 0 THEN FC(nm, line+1, skipTo, delta-1, mid)
    ELSE IF cmd \in nm.end THEN [mids |-> mid, end |-> line]
    ELSE IF cmd \in nm.start THEN
       LET sub == FC(nm, line+1, line+1, 0, <<>>) IN
       IF IsErr(sub) THEN sub ELSE FC(nm, line+1, sub.end+1, delta, mid)
    ELSE FC(nm, line+1, skipTo, delta, mid)
\* pop_call_info_for_line: pop (and discard) until an entry matches
RECURSIVE PopIf(_,_), PopWh(_,_), PopForRec(_,_)
PopIf(stk, line) == IF stk = <<>> THEN [found |-> FALSE, rest |-> <<>>]
   ELSE LET e == stk[Len(stk)]  rest == SubSeq(stk, 1, Len(stk)-1) IN
     IF e.current = line THEN [found |-> TRUE, e |-> e, rest |-> rest] ELSE PopIf(rest, line)
PopWh(stk, line) == IF stk = <<>> THEN [found |-> FALSE, rest |-> <<>>]
   ELSE LET e == stk[Len(stk)]  rest == SubSeq(stk, 1, Len(stk)-1) IN
     IF e.end = line THEN [found |-> TRUE, e |-> e, rest |-> rest] ELSE PopWh(rest, line)
PopForRec(stk, line) == IF stk = <<>> THEN [found |-> FALSE, rest |-> <<>>]
   ELSE LET e == stk[Len(stk)]  rest == SubSeq(stk, 1, Len(stk)-1) IN
     IF e.start = line \/ e.end = line THEN [found |-> TRUE, e |-> e, rest |-> rest] ELSE PopForRec(rest, line)
Put(f, k, v) == [x \in DOMAIN f \cup {k} |-> IF x = k THEN v ELSE f[x]]
\* the command a line resolves to (alias table; generic end through the end table)
Resolve(cmd, line) ==
  CASE cmd \in IfNames_ -> "If" [] cmd \in ElseIfNames_ -> "ElseIf" [] cmd \in ElseNames_ -> "Else" [] cmd \in EndIfNames_ -> "EndIf"
    [] cmd \in WhileNames_ -> "While" [] cmd \in EndWhileNames_ -> "EndWhile" [] cmd \in ForNames_ -> "For" [] cmd \in EndForNames_ -> "EndFor"
    [] cmd = "end" -> (IF line \in DOMAIN endTab THEN endTab[line] ELSE "Noop")
    [] OTHER -> cmd
U(vs) == UNCHANGED vs
Step ==
  /\ phase = "run" /\ steps' = steps + 1 /\ UNCHANGED <<prog, open, struct>>
  /\ IF pc >= n THEN phase' = "done" /\ result' = "ok" /\ U(<<pc, c, i, trace, ifStack, whStack, forStack, ifMeta, whMeta, forMeta, endTab>>)
     ELSE IF steps >= Budget THEN phase' = "done" /\ result' = "budget" /\ U(<<pc, c, i, trace, ifStack, whStack, forStack, ifMeta, whMeta, forMeta, endTab>>)
     ELSE LET ln == prog[pc+1]  op == Resolve(ln.cmd, pc) IN
      CASE op = "emit" -> trace' = Append(trace, <<pc, c, i>>) /\ pc' = pc+1 /\ phase' = "run" /\ U(<<c, i, ifStack, whStack, forStack, ifMeta, whMeta, forMeta, endTab, result>>)
        [] op = "dec" -> c' = (IF c > 0 THEN c - 1 ELSE 0) /\ pc' = pc+1 /\ phase' = "run" /\ U(<<i, trace, ifStack, whStack, forStack, ifMeta, whMeta, forMeta, endTab, result>>)
        [] op \in {"Noop", "EndIf"} -> pc' = pc+1 /\ phase' = "run" /\ U(<<c, i, trace, ifStack, whStack, forStack, ifMeta, whMeta, forMeta, endTab, result>>)
        [] op = "If" ->
             LET meta == IF pc \in DOMAIN ifMeta THEN ifMeta[pc] ELSE FC(IfNm, pc+1, pc+1, 0, <<>>) IN
             IF IsErr(meta) THEN result' = "crash" /\ phase' = "done" /\ U(<<pc, c, i, trace, ifStack, whStack, forStack, ifMeta, whMeta, forMeta, endTab>>)
             ELSE /\ ifMeta' = Put(ifMeta, pc, meta) /\ endTab' = Put(endTab, meta.end, "EndIf")
                  /\ phase' = "run" /\ U(<<c, i, trace, whStack, forStack, whMeta, forMeta, result>>)
                  /\ IF Truth(ln.cond, c)
                     THEN /\ ifStack' = Append(ifStack, [current |-> IF meta.mids = <<>> THEN meta.end ELSE meta.mids[1], passed |-> TRUE, idx |-> 0, meta |-> meta])
                          /\ pc' = pc+1
                     ELSE IF meta.mids = <<>> THEN pc' = meta.end + 1 /\ U(<<ifStack>>)
                     ELSE /\ ifStack' = Append(ifStack, [current |-> meta.mids[1], passed |-> FALSE, idx |-> 0, meta |-> meta])
                          /\ pc' = meta.mids[1]
        [] op = "ElseIf" ->
             LET p == PopIf(ifStack, pc) IN
             /\ phase' = "run" /\ U(<<c, i, trace, whStack, forStack, ifMeta, whMeta, forMeta, endTab, result>>)
             /\ IF ~p.found THEN ifStack' = p.rest /\ pc' = pc+1     \* Error result: the runner stores false and continues
                ELSE IF p.e.passed THEN ifStack' = p.rest /\ pc' = p.e.meta.end + 1
                ELSE LET m == p.e.meta  k == p.e.idx IN
                  IF Truth(ln.cond, c)
                  THEN /\ ifStack' = Append(p.rest, [current |-> IF k + 1 < Len(m.mids) THEN m.mids[k+2] ELSE m.mids[1], passed |-> TRUE, idx |-> k, meta |-> m])
                       /\ pc' = pc+1
                  ELSE IF k + 1 < Len(m.mids)
                  THEN /\ ifStack' = Append(p.rest, [current |-> m.mids[k+2], passed |-> FALSE, idx |-> k+1, meta |-> m])
                       /\ pc' = m.mids[k+2]
                  ELSE ifStack' = p.rest /\ pc' = m.end + 1
        [] op = "Else" ->
             LET p == PopIf(ifStack, pc) IN
             /\ phase' = "run" /\ U(<<c, i, trace, whStack, forStack, ifMeta, whMeta, forMeta, endTab, result>>)
             /\ ifStack' = p.rest /\ pc' = (IF p.found /\ p.e.passed THEN p.e.meta.end + 1 ELSE pc+1)
        [] op = "While" ->
             LET meta == IF pc \in DOMAIN whMeta THEN whMeta[pc] ELSE
                           LET r == FC(WhNm, pc+1, pc+1, 0, <<>>) IN IF IsErr(r) THEN r ELSE [start |-> pc, end |-> r.end] IN
             IF IsErr(meta) THEN result' = "crash" /\ phase' = "done" /\ U(<<pc, c, i, trace, ifStack, whStack, forStack, ifMeta, whMeta, forMeta, endTab>>)
             ELSE /\ whMeta' = Put(whMeta, pc, meta) /\ endTab' = Put(endTab, meta.end, "EndWhile")
                  /\ phase' = "run" /\ U(<<c, i, trace, ifStack, forStack, ifMeta, forMeta, result>>)
                  /\ IF Truth(ln.cond, c) THEN whStack' = Append(whStack, meta) /\ pc' = pc+1
                     ELSE pc' = meta.end + 1 /\ U(<<whStack>>)
        [] op = "EndWhile" ->
             LET p == PopWh(whStack, pc) IN
             /\ phase' = "run" /\ U(<<c, i, trace, ifStack, forStack, ifMeta, whMeta, forMeta, endTab, result>>)
             /\ IF p.found THEN whStack' = Append(p.rest, p.e) /\ pc' = p.e.start ELSE whStack' = p.rest /\ pc' = pc+1
        [] op = "For" ->
             LET top == IF forStack = <<>> THEN [start |-> 0, end |-> 0, iter |-> 0] ELSE forStack[Len(forStack)]
                 resume == forStack # <<>> /\ (top.start = pc \/ top.end = pc)
                 base == IF resume THEN SubSeq(forStack, 1, Len(forStack)-1) ELSE forStack
                 m == IF resume THEN [end |-> top.end] ELSE IF pc \in DOMAIN forMeta THEN forMeta[pc]
                      ELSE LET r == FC(ForNm, pc+1, pc+1, 0, <<>>) IN IF IsErr(r) THEN r ELSE [end |-> r.end]
                 it == IF resume THEN top.iter ELSE 0
             IN IF IsErr(m) THEN result' = "crash" /\ phase' = "done" /\ U(<<pc, c, i, trace, ifStack, whStack, forStack, ifMeta, whMeta, forMeta, endTab>>)
                ELSE /\ forMeta' = (IF resume THEN forMeta ELSE Put(forMeta, pc, m))
                     /\ endTab' = (IF resume THEN endTab ELSE Put(endTab, m.end, "EndFor"))
                     /\ phase' = "run" /\ U(<<c, trace, ifStack, whStack, ifMeta, whMeta, result>>)
                     /\ IF it < Len(Arr) THEN forStack' = Append(base, [iter |-> it + 1, start |-> pc, end |-> m.end]) /\ i' = Arr[it + 1] /\ pc' = pc+1
                        ELSE forStack' = base /\ i' = i /\ pc' = m.end + 1
        [] op = "EndFor" ->
             LET p == PopForRec(forStack, pc) IN
             /\ phase' = "run" /\ U(<<c, i, trace, ifStack, whStack, ifMeta, whMeta, forMeta, endTab, result>>)
             /\ IF p.found THEN forStack' = Append(p.rest, p.e) /\ pc' = p.e.start ELSE forStack' = p.rest /\ pc' = pc+1
Next == Build \/ Start \/ Step
Spec == Init /\ [][Next]_vars
\* ---------------- the property: at termination the goto machine did what the tree walker does
Refines == (phase = "done" /\ result # "budget") =>
             LET r == Ref IN r.fuel = 0 \/ (result = "ok" /\ trace = r.trace /\ c = r.c /\ i = r.i)
\* the block scan finds exactly the ground-truth structure
ScanSound == (phase = "run" /\ steps = 0) => \A b \in DOMAIN struct :
   LET nm == CASE struct[b].k = "if" -> IfNm [] struct[b].k = "while" -> WhNm [] struct[b].k = "for" -> ForNm
       r == FC(nm, b+1, b+1, 0, <<>>) IN ~IsErr(r) /\ r.end = struct[b].end /\ r.mids = struct[b].mids
=============================================================================
