------------------------------- MODULE RunLoop -------------------------------
(* The two interpreter loops of duckscript as step functions over logged events (growth: C03 / C02 / C19 on real
   workloads).  A loop runs over an instruction table tab (0-based line = tab[line+1]):
     runner loop  (duckscript/src/runner.rs run_instructions): continue / goto store the output variable (delete it when
                  there is no value) and move on / jump (label: last definition wins; line: as given); error stores
                  "false", dispatches on_error(message, source line, source file) and continues with the next line;
                  crash and exit end the loop (exit stores the output first);
     script-command loop (duckscript_sdk/src/utils/eval.rs eval_instructions, the loop behind every library command
                  written in duckscript): continue stores the output variable; goto <line> jumps WITHOUT storing;
                  error, crash, exit, goto <label> end the loop; no on_error dispatch.
   Lines without a command are executed silently by both loops: a script line with an output variable and no
   command deletes that variable. *)
EXTENDS Binding
None0 == <<>>
HasCmd(tab, line) == line < Len(tab) /\ tab[line+1].t = "script" /\ tab[line+1].cmd # <<>>
\* variables as a function from names to values
Put(vars, k, v) == [x \in DOMAIN vars \cup {k} |-> IF x = k THEN v ELSE vars[x]]
Del(vars, k) == [x \in DOMAIN vars \ {k} |-> vars[x]]
Store(vars, outvar, hasOut, out) == IF outvar = <<>> THEN vars ELSE IF hasOut THEN Put(vars, outvar[1], out) ELSE Del(vars, outvar[1])
RECURSIVE PutAll(_,_,_), DelAll(_,_,_)
PutAll(vars, set, i) == IF i > Len(set) THEN vars ELSE PutAll(Put(vars, set[i].k, set[i].v), set, i+1)
DelAll(vars, del, i) == IF i > Len(del) THEN vars ELSE DelAll(Del(vars, del[i]), del, i+1)
\* variables after the command body: the logged difference applied to the variables before it
After(pre, set, del) == DelAll(PutAll(pre, set, 1), del, 1)
\* silent execution of the command-less lines from..to-1; [ok |-> all of them are command-less, vars]
RECURSIVE Silent(_,_,_,_)
Silent(tab, from, to, vars) ==
  IF from >= to THEN [ok |-> TRUE, vars |-> vars]
  ELSE IF HasCmd(tab, from) THEN [ok |-> FALSE, vars |-> vars]
  ELSE Silent(tab, from + 1, to, IF from < Len(tab) /\ tab[from+1].t = "script" /\ tab[from+1].out # <<>> THEN Del(vars, tab[from+1].out[1]) ELSE vars)
\* label table: last definition wins; 0 = absent, else line + 1
RECURSIVE LabelAt(_,_,_,_)
LabelAt(tab, lbl, i, found) == IF i > Len(tab) THEN found ELSE LabelAt(tab, lbl, i+1, IF tab[i].t = "script" /\ tab[i].label = <<lbl>> THEN i ELSE found)
\* the loop state after an event: [live, line, vars, pend (an on_error dispatch is due), err, src]
RunnerAfter(tab, e, vars) ==
  CASE e.kind = "continue" -> [live |-> TRUE, line |-> e.line + 1, vars |-> Store(vars, e.outvar, e.has_out, e.out), pend |-> FALSE]
    [] e.kind = "goto" -> LET v == Store(vars, e.outvar, e.has_out, e.out) IN
         IF e.goto.k = "line" THEN [live |-> TRUE, line |-> e.goto.line, vars |-> v, pend |-> FALSE]
         ELSE LET t == LabelAt(tab, e.goto.label, 1, 0) IN [live |-> t # 0, line |-> IF t = 0 THEN 0 ELSE t - 1, vars |-> v, pend |-> FALSE]
    [] e.kind = "error" -> [live |-> TRUE, line |-> e.line + 1, vars |-> Store(vars, e.outvar, TRUE, <<102,97,108,115,101>>), pend |-> TRUE]
    [] e.kind = "exit" -> [live |-> FALSE, line |-> e.line, vars |-> Store(vars, e.outvar, e.has_out, e.out), pend |-> FALSE]
    [] OTHER -> [live |-> FALSE, line |-> e.line, vars |-> vars, pend |-> FALSE]
AliasAfter(tab, e, vars) ==
  CASE e.kind = "continue" -> [live |-> TRUE, line |-> e.line + 1, vars |-> Store(vars, e.outvar, e.has_out, e.out), pend |-> FALSE]
    [] e.kind = "goto" /\ e.goto.k = "line" -> [live |-> TRUE, line |-> e.goto.line, vars |-> vars, pend |-> FALSE]
    [] OTHER -> [live |-> FALSE, line |-> e.line, vars |-> vars, pend |-> FALSE]
=============================================================================
