INIT Init
NEXT Next
