CONSTANT Pool = 1
INIT Init
NEXT Next
