CONSTANTS L = 5 EMIT = TRUE
SPECIFICATION Spec
INVARIANT Total
INVARIANT OnePerLine
INVARIANT Emit
CHECK_DEADLOCK FALSE
