------------------------------- MODULE Expansion -------------------------------
(* I-level model of duckscript/src/expansion.rs::expand_by_wrapper (one recursion step per
   character, state = the function's six mutable locals) and runner.rs::bind_command_arguments. *)
EXTENDS Parser
PERCENT == 37  RBRACE == 125
BreakKey(c) == c \in {SP, LF, TAB, CR, EQ}
Prefix(single, full) == <<IF single THEN DOLLAR ELSE PERCENT>> \o (IF full THEN <<LBRACE>> ELSE <<>>)
EnvGet(env, k) == IF k \in DOMAIN env THEN env[k] ELSE <<>>
\* st = [out, pi (prefix_index), fp (found_prefix), key, force (force_push), single (single_type), ps (prefix_single_type)]
RECURSIVE XScan(_,_,_,_)
XScan(v, i, st, env) ==
  IF i > Len(v) THEN st
  ELSE LET ch == v[i] IN
   IF ~st.fp THEN
     IF st.force THEN
        XScan(v, i+1, [st EXCEPT !.out = (IF ch # DOLLAR /\ ch # PERCENT THEN Append(@, BS) ELSE @) \o <<ch>>, !.force = FALSE], env)
     ELSE IF ch = BS /\ st.pi = 0 THEN XScan(v, i+1, [st EXCEPT !.force = TRUE], env)
     ELSE IF st.pi = 0 /\ (ch = DOLLAR \/ ch = PERCENT) THEN XScan(v, i+1, [st EXCEPT !.pi = 1, !.ps = (ch = DOLLAR)], env)
     ELSE IF st.pi = 1 /\ ch = LBRACE THEN XScan(v, i+1, [st EXCEPT !.fp = TRUE, !.pi = 0, !.single = st.ps, !.key = <<>>], env)
     ELSE LET o == IF st.pi > 0 THEN st.out \o Prefix(st.ps, FALSE) ELSE st.out IN
          XScan(v, i+1, [st EXCEPT !.out = Append(o, ch), !.pi = 0], env)
   ELSE IF ch = RBRACE THEN
        XScan(v, i+1, [st EXCEPT !.out = @ \o EnvGet(env, st.key), !.key = <<>>, !.fp = FALSE], env)
   ELSE IF BreakKey(ch) THEN
        XScan(v, i+1, [st EXCEPT !.out = (@ \o Prefix(st.single, TRUE) \o st.key) \o <<ch>>, !.pi = 0, !.key = <<>>, !.fp = FALSE], env)
   ELSE XScan(v, i+1, [st EXCEPT !.key = Append(@, ch)], env)
\* result: [k |-> "single", v] / [k |-> "multi", vs] / [k |-> "none"]
Expand(v, env) ==
  LET s0 == [out |-> <<>>, pi |-> 0, fp |-> FALSE, key |-> <<>>, force |-> FALSE, single |-> TRUE, ps |-> TRUE]
      s == XScan(v, 1, s0, env)
      fin == IF s.force THEN [out |-> Append(s.out, BS), single |-> s.single]
             ELSE IF s.key # <<>> THEN [out |-> (IF s.pi > 0 \/ s.fp THEN s.out \o Prefix(s.single, s.fp) ELSE s.out) \o s.key, single |-> s.single]
             ELSE IF s.pi = 1 THEN [out |-> s.out \o Prefix(s.ps, FALSE), single |-> TRUE]
             ELSE [out |-> s.out, single |-> s.single]
  IN IF fin.out = <<>> THEN (IF fin.single THEN [k |-> "none"] ELSE [k |-> "multi", vs |-> <<>>])
     ELSE IF fin.single THEN [k |-> "single", v |-> fin.out]
     ELSE LET r == Args(fin.out, 0, TRUE, <<>>) IN       \* parser::reparse_arguments
          IF IsErr(r) THEN [k |-> "none"] ELSE [k |-> "multi", vs |-> r.args]
\* bind_command_arguments: Single -> one argument, Multi -> its values, None -> one empty argument
RECURSIVE Bind(_,_,_)
Bind(args, i, env) == IF i > Len(args) THEN <<>>
  ELSE LET e == Expand(args[i], env) IN
       (CASE e.k = "single" -> <<e.v>> [] e.k = "multi" -> e.vs [] e.k = "none" -> <<<<>>>>) \o Bind(args, i+1, env)
=============================================================================
