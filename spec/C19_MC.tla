------------------------------- MODULE C19_MC -------------------------------
(* Leg A of C19: (1) the wrapper protocol explored exhaustively (bodies of up to a few steps, errors at
   any point, one level of nesting): NoTrace; (2) the enumeration of the invocation cases replayed on
   the real SDK: every script-implemented command x argument shapes (by kind) x calling contexts. *)
EXTENDS ScriptCmd, Json, SequencesExt
MCCaller == {<<"", "a">>, <<"", "b">>}
MCCmds == {[n |-> "c1", eff |-> "none"], [n |-> "c2", eff |-> "newhandle"], [n |-> "u", eff |-> "unset"]}
\* argument kinds: L live array, M live map, S live set, R released handle, B bogus handle, V plain word, W a value with spaces and syntax
\* characters, E empty string, N a number, P an existing path, Q a missing path
Kinds == {"L", "M", "S", "R", "B", "V", "W", "E", "N", "P", "Q"}
Shapes == {<<>>} \cup {<<x>> : x \in Kinds} \cup {<<x, y>> : x \in {"L", "M", "S", "R", "W", "P"}, y \in {"L", "M", "V", "W", "E", "Q", "P"}} \cup {<<"L", "L", "L">>, <<"V", "W", "V">>}
Commands == {"array_concat", "array_contains", "array_is_empty", "array_join", "map_contains_key", "map_contains_value", "map_is_empty", "set_from_array",
             "set_is_empty", "is_windows", "uname", "printenv", "glob_cp", "join_path", "glob_chmod", "sha256sum", "sha512sum", "base64", "concat", "unset"}
Contexts == {"top", "function", "loop", "nested", "repeat"}
Cases == { [cmd |-> c, shape |-> s, ctx |-> x] : c \in Commands, s \in Shapes, x \in Contexts }
ASSUME PrintT(<<"COUNTS", Cardinality(Commands), Cardinality(Shapes), Cardinality(Cases)>>)

EmitCases == (stack = <<>> /\ result = "none") => PrintT(<<"CASES", ToJson(SetToSeq(Cases))>>)
=============================================================================
