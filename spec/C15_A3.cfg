CONSTANTS
  Names <- Names3
  Descs <- Descs3
SPECIFICATION Spec
VIEW View
INVARIANT NoDanglingAlias
INVARIANT INoDanglingAlias
INVARIANT ImplRefines
INVARIANT Emit
PROPERTY RefusedSetIsNoOp
PROPERTY AcceptedSetReachable
PROPERTY RemoveExact
CHECK_DEADLOCK FALSE
