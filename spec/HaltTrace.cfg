SPECIFICATION Spec
CONSTRAINT Track
POSTCONDITION Accepted
CHECK_DEADLOCK FALSE
