------------------------------- MODULE C11_Trace -------------------------------
(* Leg C of C11: long random histories of variable / scope commands on the real SDK over 12 names
   (prefixed, with spaces, non-ASCII) and Unicode values.  Names and values are code-point sequences,
   so HasPrefix is a real prefix test.  After every operation the record carries the command output,
   the whole variable map and the saved maps of the scope stack (observed by popping a clone); all
   are compared with VarScope!Eff applied to the model state (VIOL on mismatch; the model state is
   then resynchronised to the observed one so that later steps are still checked). *)
EXTENDS Json, IOUtils, SequencesExt
PrefixOf(nm, p) == IsPrefix(p, nm)
INSTANCE VarScope WITH HasPrefix <- PrefixOf
Rec == ndJsonDeserialize(IOEnv.TRACE)
VARIABLES st, l
MapOf(kv) == [k \in {kv[i].k : i \in 1..Len(kv)} |-> kv[CHOOSE i \in 1..Len(kv) : kv[i].k = k].v]
Lit(s) == CASE s = "true" -> <<116,114,117,101>> [] s = "false" -> <<102,97,108,115,101>> [] OTHER -> <<>>
OutOK(e, r) == IF r.tgt # <<>> THEN TRUE
   ELSE CASE e.out.k = "none" -> ~r.has_out
          [] e.out.k = "star" -> ~(r.has_out /\ r.out = Lit("false"))
          [] e.out.k = "names" -> r.has_out /\ Len(r.names) = Cardinality(DOMAIN e.vars) /\ {r.names[i] : i \in 1..Len(r.names)} = DOMAIN e.vars
          [] e.out.k = "lit" -> r.has_out /\ r.out = Lit(e.out.v)
          [] e.out.k = "val" -> r.has_out /\ r.out = e.out.v
StoreT(e, tgt) == IF tgt = <<>> THEN e.vars ELSE IF e.out.k = "none" THEN Del(e.vars, {tgt}) ELSE Put(e.vars, tgt, e.out.v)
Minus(f, K) == [x \in DOMAIN f \ K |-> f[x]]
Step == /\ l <= Len(Rec) /\ l' = l + 1
        /\ LET r == Rec[l] IN
           IF r.ev = "reset" THEN st' = [vars |-> <<>>, stack |-> <<>>]
           ELSE LET op == [cmd |-> r.cmd, args |-> r.args, tgt |-> r.tgt]
                    e == Eff(op, st.vars, st.stack)
                    ovars == MapOf(r.vars)
                    ostack == [i \in 1..Len(r.stack) |-> MapOf(r.stack[i])]
                    good == OutOK(e, r) /\ Minus(ovars, e.dc) = Minus(StoreT(e, r.tgt), e.dc) /\ ostack = e.stack
                IN /\ st' = [vars |-> ovars, stack |-> ostack]
                   /\ IF good THEN TRUE
                      ELSE PrintT(<<"VIOL", ToJson([rec |-> l, hist |-> r.hist, cmd |-> r.cmd, args |-> r.args, tgt |-> r.tgt, out |-> r.out, has_out |-> r.has_out,
                                                    expout |-> e.out.k, outok |-> OutOK(e, r), varsok |-> (Minus(ovars, e.dc) = Minus(StoreT(e, r.tgt), e.dc)), stackok |-> (ostack = e.stack)])>>)
Init == st = [vars |-> <<>>, stack |-> <<>>] /\ l = 1
Spec == Init /\ [][Step]_<<st, l>>
Done == PrintT(<<"TRACE_DONE", TLCGet("stats").diameter - 1>>)
=============================================================================
