CONSTANTS NF = 3 MaxLen = 2 MaxIncs = 3 WithErrors = TRUE EMIT = TRUE
SPECIFICATION Spec
INVARIANT PasteEqualsFlatten
INVARIANT Provenance
INVARIANT ErrorsNamed
INVARIANT Emit
CHECK_DEADLOCK FALSE
