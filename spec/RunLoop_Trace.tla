------------------------------- MODULE RunLoop_Trace -------------------------------
(* Trace validation of the interpreter loops on real workloads: the repository's own test scripts run on the real SDK
   behind a logging proxy (harness/src/runlog.rs); the log is regrouped per loop instance (by the logged loop id) into
   "loop" records (instruction table, kind of loop by the command that started it) followed by that loop's own events.
   Per direct event (the invoked command is the command of the instruction at the logged line):
     C03  the event's line is the expected next line up to command-less lines; the variables the command saw are the
          expected ones (previous body effect + the loop's store rule + silent deletions); nothing runs after the end;
          an error is followed by the on_error dispatch with the message and the source line;
     C02  the arguments the command received are the binding of the written arguments under those variables
          (R-level Binding!Sem when the written arguments are inside the documented template syntax: VIOL;
           I-level Expansion!Bind always: DRIFT);
     C19  an invocation of a command written in duckscript leaves the caller's variables as they were. *)
EXTENDS RunLoop, Json, IOUtils
Rec == ndJsonDeserialize(IOEnv.TRACE)
VARIABLES l, st
RunnerParents == {"", "std::test::TestFile", "std::test::TestDirectory"}
ScriptCommands == {"std::collections::ArrayConcat", "std::collections::ArrayContains", "std::collections::ArrayIsEmpty", "std::collections::ArrayJoin",
   "std::collections::MapContainsKey", "std::collections::MapContainsValue", "std::collections::MapIsEmpty", "std::collections::SetFromArray",
   "std::collections::SetIsEmpty", "std::env::IsWindows", "std::env::UName", "std::env::PrintEnv", "std::fs::CPGlob", "std::fs::JoinPath",
   "std::fs::SetModeGlob", "std::hash::Sha256Sum", "std::hash::Sha512Sum", "std::string::Base64", "std::string::Concat", "std::var::Unset"}
KindOf(r) == IF r.eval THEN "eval" ELSE IF r.parent \in RunnerParents THEN "runner" ELSE IF r.parent \in ScriptCommands THEN "alias" ELSE "other"
EnvMap(e) == [k \in {e[i].k : i \in 1..Len(e)} |-> e[CHOOSE i \in 1..Len(e) : e[i].k = k].v]
RECURSIVE Digits(_)
Digits(n) == IF n < 10 THEN <<48 + n>> ELSE Digits(n \div 10) \o <<48 + (n % 10)>>
Say(tag, k, r, why, extra) == PrintT(<<tag, ToJson([rec |-> k, why |-> why, cmd |-> r.cmd, line |-> r.line, loop |-> r.loop, file |-> r.file, kind |-> st.kind, x |-> extra])>>)
AllOK(ts) == \A i \in 1..Len(ts) : ts[i].ok
TArgs(ts) == [i \in 1..Len(ts) |-> ts[i].arg]
SpreadVals(ts, env) == [i \in 1..Len(ts) |-> IF ts[i].ok /\ ts[i].arg.spread THEN EnvGet(env, ts[i].arg.name) ELSE <<>>]
\* ---- one event
BindCheck(k, r, pre) ==
  LET w == st.tab[r.line+1].args  ts == Templs(w)  model == Bind(w, 1, pre) IN
  /\ IF r.args = model THEN TRUE ELSE Say("DRIFT", k, r, "binding differs from Expansion!Bind", [written |-> w, model |-> model, got |-> r.args])
  /\ IF ~AllOK(ts) THEN PrintT(<<"BIND", "outside">>)
     ELSE /\ PrintT(<<"BIND", "checked">>)
          /\ IF r.args = Sem(TArgs(ts), 1, pre) THEN TRUE
             ELSE Say("VIOL-C02", k, r, "received arguments are not the binding of the written ones",
                      [written |-> w, exp |-> Sem(TArgs(ts), 1, pre), got |-> r.args, same_as_model |-> (r.args = model), spreadvals |-> SpreadVals(ts, pre)])
Progress(k, r, pre) ==
  IF st.fresh THEN
     LET s == Silent(st.tab, 0, r.line, pre) IN
     IF s.ok THEN TRUE ELSE Say("VIOL-C03", k, r, "the first command run is not the first command line of the loop", [none |-> 0])
  ELSE IF ~st.live THEN Say("VIOL-C03", k, r, "an instruction ran after the loop had ended", [none |-> 0])
  ELSE IF st.pend THEN Say("VIOL-C03", k, r, "an error was not followed by the on_error dispatch", [none |-> 0])
  ELSE LET s == Silent(st.tab, st.line, r.line, st.vars) IN
     /\ IF r.line >= st.line /\ s.ok THEN TRUE
        ELSE Say("VIOL-C03", k, r, "the line run is not the one the previous result dictates", [expected |-> st.line, got |-> r.line])
     /\ IF r.line >= st.line /\ s.ok /\ s.vars # pre
        THEN Say("VIOL-C03", k, r, "the variables the command saw are not the ones the previous results dictate",
                 [missing |-> {x \in DOMAIN s.vars : x \notin DOMAIN pre}, extra |-> {x \in DOMAIN pre : x \notin DOMAIN s.vars},
                  differ |-> {x \in DOMAIN pre \cap DOMAIN s.vars : pre[x] # s.vars[x]}])
        ELSE TRUE
OnErrorCheck(k, r) ==
  /\ IF Len(r.args) = 3 /\ r.args[1] = st.err /\ r.args[2] = Digits(st.src) THEN TRUE
     ELSE Say("VIOL-C03", k, r, "on_error did not receive the message and the source line of the failed instruction", [args |-> r.args, err |-> st.err, src |-> st.src])
Leak(k, r, pre, post) ==
  IF r.cmd \in ScriptCommands /\ r.cmd # "std::var::Unset" /\ post # pre
  THEN Say("VIOL-C19", k, r, "a command written in duckscript changed the caller's variables",
           [changed |-> {x \in DOMAIN pre \cup DOMAIN post : x \notin DOMAIN pre \/ x \notin DOMAIN post \/ pre[x] # post[x]}])
  ELSE TRUE
Step(k, r) ==
  IF r.ev = "file" THEN st' = [kind |-> "none"]
  ELSE IF r.ev = "loop" THEN st' = [kind |-> KindOf(r), tab |-> r.tab, fresh |-> TRUE, live |-> TRUE, pend |-> FALSE, line |-> 0, vars |-> <<>>, err |-> <<>>, src |-> 0]
                             /\ PrintT(<<"LOOP", KindOf(r)>>)
  ELSE LET pre == EnvMap(r.pre)  post == After(pre, r.set, r.del) IN
    /\ Leak(k, r, pre, post)
    /\ IF st.kind \notin {"runner", "alias"} THEN st' = st
       ELSE IF st.kind = "runner" /\ ~st.fresh /\ st.pend /\ r.cmd = "std::error::OnError" /\ r.line = 0 THEN
            \* the dispatch made by the loop itself (not an instruction of the table)
            /\ OnErrorCheck(k, r)
            /\ IF pre = st.vars THEN TRUE ELSE Say("VIOL-C03", k, r, "on_error saw other variables than the failed instruction left", [none |-> 0])
            /\ st' = [st EXCEPT !.pend = FALSE, !.vars = post]
            /\ PrintT(<<"EVENT", "on_error">>)
       ELSE IF ~r.direct THEN st' = st /\ PrintT(<<"EVENT", "indirect">>)
       ELSE /\ PrintT(<<"EVENT", st.kind>>)
            /\ Progress(k, r, pre)
            /\ BindCheck(k, r, pre)
            /\ LET a == IF st.kind = "runner" THEN RunnerAfter(st.tab, r, post) ELSE AliasAfter(st.tab, r, post) IN
               st' = [st EXCEPT !.fresh = FALSE, !.live = a.live, !.line = a.line, !.vars = a.vars, !.pend = a.pend, !.err = r.err, !.src = st.tab[r.line+1].src]
Init == l = 1 /\ st = [kind |-> "none"]
Next == l <= Len(Rec) /\ Step(l, Rec[l]) /\ l' = l + 1
Spec == Init /\ [][Next]_<<l, st>>
Done == PrintT(<<"TRACE_DONE", TLCGet("stats").diameter - 1>>)
=============================================================================
