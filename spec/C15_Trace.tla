------------------------------- MODULE C15_Trace -------------------------------
(* Leg C of C15: random histories of the script-level commands alias, unalias, remove_command,
   is_command_defined and function definitions on the real SDK, observed after every step through
   the live registry (which command every name of the universe resolves to).  The SDK layer is
   modelled on top of Registry's R-level operators: alias n = Set([n, {}]) remembered in aliasState;
   unalias k = Remove(k) for a user alias, else deletion of the alias-table entry k; fn x = Set([x, {}])
   unless a function of that name was defined before. *)
EXTENDS Registry, IOUtils
Rec == ndJsonDeserialize(IOEnv.TRACE)
VARIABLES st, l
Universe == {"pp", "qq", "rr", "echo", "set", "std::Echo"}
InitSt == [cmds |-> ("std::Echo" :> {"echo"}) @@ ("std::var::Set" :> {"set"}),
           al |-> ("echo" :> "std::Echo") @@ ("set" :> "std::var::Set"), as |-> {}, fd |-> {}]
ResolveAll(s) == [y \in Universe |-> Resolve(s.cmds, s.al, y).n]
\* result of one script-level operation: new state and the command's output ("" = none / not observed)
Apply(s, r) ==
  LET x == r.x  d == [n |-> x, a |-> {}] IN
  CASE r.op = "alias" -> IF Refused(s.cmds, s.al, d) THEN [s |-> s, out |-> "false"]
                         ELSE [s |-> [s EXCEPT !.cmds = SetC(s.cmds, d), !.al = SetA(s.al, d), !.as = @ \cup {x}], out |-> "true"]
    [] r.op = "unalias" -> IF x \in s.as THEN
                              (LET t == Target(s.al, x) IN IF t \in DOMAIN s.cmds
                                 THEN [s |-> [s EXCEPT !.cmds = RemC(s.cmds, t), !.al = RemA(s.al, t), !.as = @ \ {x}], out |-> "true"]
                                 ELSE [s |-> s, out |-> "false"])
                           ELSE IF x \in DOMAIN s.al THEN [s |-> [s EXCEPT !.al = [y \in DOMAIN s.al \ {x} |-> s.al[y]]], out |-> "true"]
                           ELSE [s |-> s, out |-> "false"]
    [] r.op = "remove_command" -> LET t == Target(s.al, x) IN
                           IF t \in DOMAIN s.cmds THEN [s |-> [s EXCEPT !.cmds = RemC(s.cmds, t), !.al = RemA(s.al, t)], out |-> "true"]
                           ELSE [s |-> s, out |-> "false"]
    [] r.op = "is_command_defined" -> [s |-> s, out |-> IF Resolve(s.cmds, s.al, x).n # "" THEN "true" ELSE "false"]
    [] r.op = "fn" -> IF x \in s.fd THEN [s |-> s, out |-> ""]
                      ELSE IF Refused(s.cmds, s.al, d) THEN [s |-> [s EXCEPT !.fd = @ \cup {x}], out |-> ""]
                      ELSE [s |-> [s EXCEPT !.cmds = SetC(s.cmds, d), !.al = SetA(s.al, d), !.fd = @ \cup {x}], out |-> ""]
NoDangling(s) == \A y \in DOMAIN s.al : s.al[y] \in DOMAIN s.cmds
Same(m, f) == \A y \in Universe : m[y] = f[y]
Step == /\ l <= Len(Rec) /\ l' = l + 1
        /\ LET r == Rec[l] IN
           IF r.ev = "reset" THEN
              /\ st' = InitSt
              /\ IF Same(r.resolve, ResolveAll(InitSt)) THEN TRUE ELSE PrintT(<<"HARNESS", ToJson([rec |-> l, why |-> "initial registry differs from the modelled one", got |-> r.resolve])>>)
           ELSE LET a == Apply(st, r) IN
              /\ st' = a.s
              /\ IF (a.out = "" \/ a.out = r.out) /\ Same(r.resolve, ResolveAll(a.s)) /\ NoDangling(a.s) /\ r.dangling = 0 THEN TRUE
                 ELSE PrintT(<<"VIOL", ToJson([rec |-> l, hist |-> r.hist, op |-> r.op, x |-> r.x, out |-> r.out, expout |-> a.out,
                                               resolve |-> r.resolve, expresolve |-> ResolveAll(a.s), dangling |-> r.dangling])>>)
TInit == st = InitSt /\ l = 1 /\ cmds = <<>> /\ al = <<>> /\ icmds = <<>> /\ ial = <<>> /\ path = <<>>
TSpec == TInit /\ [][Step /\ UNCHANGED vars]_<<vars, st, l>>
Done == PrintT(<<"TRACE_DONE", TLCGet("stats").diameter - 1>>)
=============================================================================
