------------------------------- MODULE C19_Trace -------------------------------
(* Leg C of C19: long random sessions on one persistent context: script-implemented commands with
   random argument shapes, interleaved with ordinary variable / collection commands, many in a row.
   Every invocation record carries the caller's variable names with values before and after, the handle
   table size before and after, the output and whether the command is documented to return a new handle.
   R-level postcondition (ScriptCmd!NoTrace on concrete data): nothing under scope:: remains, no caller
   variable is added or modified, only unset's named variables disappear, the output variable holds the
   output, the handle table grew exactly by the documented result. *)
EXTENDS Naturals, Sequences, TLC, FiniteSets, Json, IOUtils, SequencesExt
Rec == ndJsonDeserialize(IOEnv.TRACE)
VARIABLE l
MapOf(kv) == [k \in {kv[i][1] : i \in 1..Len(kv)} |-> kv[CHOOSE i \in 1..Len(kv) : kv[i][1] = k][2]]
ScopePrefix == <<115, 99, 111, 112, 101, 58, 58>>        \* "scope::" as code points (names are recorded as code points)
Check(k, r) ==
  LET b == MapOf(r.before)  a == MapOf(r.after)
      removed == IF r.cmd = "unset" THEN {r.args[i] : i \in 1..Len(r.args)} ELSE {}
      expDom == (DOMAIN b \ removed) \ {r.outvar}
      noScope == \A n \in DOMAIN a \ DOMAIN b : ~IsPrefix(ScopePrefix, n)        \* no working variable of the command is left (the caller's own scope::... names stay)
      same == (DOMAIN a \ {r.outvar}) = expDom /\ \A n \in expDom : a[n] = b[n]
      handlesOK == r.handles_after = r.handles_before + (IF r.returns_handle /\ r.out_is_handle THEN 1 ELSE 0)
  IN IF r.err = "" /\ noScope /\ same /\ handlesOK THEN TRUE
     ELSE PrintT(<<"VIOL", ToJson([rec |-> k, cmd |-> r.cmd, shape |-> r.shape, err |-> r.err, noScope |-> noScope, same |-> same, handlesOK |-> handlesOK,
                                   handles |-> <<r.handles_before, r.handles_after>>])>>)
Init == l = 1
Next == l <= Len(Rec) /\ Check(l, Rec[l]) /\ l' = l + 1
Spec == Init /\ [][Next]_l
Done == PrintT(<<"TRACE_DONE", TLCGet("stats").diameter - 1>>)
=============================================================================
