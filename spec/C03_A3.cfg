CONSTANTS Cap = 30 Bounded = TRUE MaxLines = 3 MaxHalt = 0 EMIT = TRUE Rich = FALSE
SPECIFICATION Spec
INVARIANT TypeOK
INVARIANT FailedNamesLine
INVARIANT NoStartAfterHalt
INVARIANT Emit
CHECK_DEADLOCK FALSE
