------------------------------- MODULE C18_Trace -------------------------------
(* Leg C of C18: random histories of file commands in a fresh directory; after every operation the
   real directory is walked and recorded in full together with the command output.  Each step must
   equal FileTree!Eff applied to the previous observed tree (cases the property leaves out - "skip" -
   and outputs it does not fix - "?" - are not compared); a step that panicked or hung is a violation. *)
EXTENDS FileTree, Json, IOUtils
Rec == ndJsonDeserialize(IOEnv.TRACE)
VARIABLES tree, l
Empty == [p \in Paths |-> Absent]
TreeOf(o) == [p \in Paths |-> o[p]]
OutOK(eo, r) == CASE eo \in {"?", "L:"} -> TRUE
                  [] eo = "none" -> ~r.has_out
                  [] eo = "none-or-false" -> ~r.has_out \/ r.out = "false"
                  [] eo = "=" -> ~r.has_out \/ r.out = ""
                  \* "=<text>": exactly that text; anything else ("true", "false", a number): that output
                  [] OTHER -> r.has_out /\ (("=" \o r.out) = eo \/ r.out = eo)
ListOK(op, t, r) == op.cmd # "ls" \/ LET want == IF Kind(t, op.a[1]) = "dir" THEN {Base[q] : q \in Children(t, op.a[1])} ELSE {} IN
                        {r.listing[i] : i \in 1..Len(r.listing)} = want /\ Len(r.listing) = Cardinality(want)
Step == /\ l <= Len(Rec) /\ l' = l + 1
        /\ LET r == Rec[l] IN
           IF r.ev = "reset" THEN tree' = Empty
           ELSE LET op == [cmd |-> r.cmd, a |-> r.a]
                    e == Eff(op, tree)
                    obs == TreeOf(r.tree)
                    good == r.err = "" /\ (e.out = "skip" \/ (obs = e.t /\ OutOK(e.out, r) /\ ListOK(op, tree, r))) /\ (r.outside_pool = <<>> \/ e.out = "skip")
                IN /\ tree' = obs
                   /\ IF good THEN TRUE
                      ELSE PrintT(<<"VIOL", ToJson([rec |-> l, hist |-> r.hist, cmd |-> r.cmd, a |-> r.a, err |-> r.err, out |-> r.out, has_out |-> r.has_out,
                                                    expout |-> e.out, before |-> tree, after |-> obs, expected |-> e.t, outside |-> r.outside_pool])>>)
Init == tree = Empty /\ l = 1
Spec == Init /\ [][Step]_<<tree, l>>
Done == PrintT(<<"TRACE_DONE", TLCGet("stats").diameter - 1>>)
=============================================================================
