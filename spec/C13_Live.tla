------------------------------- MODULE C13_Live -------------------------------
(* C13, liveness and the asynchronous flag: programs of up to MaxLines lines that may loop forever
   (rep lines: goto back-edges, unconditional continue), the embedder raises the halt flag at an
   arbitrary moment (EnvHalt, enabled in every running state).  Under weak fairness of the runner's
   own steps: once the flag is up the run terminates, and at most the instruction whose poll preceded
   the store is still started.  No state constraint (it could hide a non-progress cycle). *)
EXTENDS Runner
CONSTANTS MaxLines
R(k, hasv, v, l, m) == [k |-> k, hasv |-> hasv, v |-> v, l |-> l, n |-> m]
LoopResults == {R("gotoL", FALSE, "", ":a", 0), R("gotoN", TRUE, "val", "", 0), R("cont", TRUE, "val", "", 0), R("err", TRUE, "boom", "", 0)}
OnceResults == {R("cont", FALSE, "", "", 0), R("gotoL", FALSE, "", ":a", 0), R("exit", TRUE, "0", "", 0), R("crash", TRUE, "bang", "", 0), R("err", TRUE, "boom", "", 0)}
Lines == { [label |-> lb, out |-> o, cmd |-> "res", res |-> <<r>>, rep |-> TRUE] : lb \in {"", ":a"}, o \in {"", "x"}, r \in LoopResults }
    \cup { [label |-> lb, out |-> "x", cmd |-> "res", res |-> <<r>>, rep |-> FALSE] : lb \in {"", ":a"}, r \in OnceResults }
    \cup { [label |-> ":a", out |-> "x", cmd |-> "", res |-> <<>>, rep |-> FALSE] }
Init == /\ prog = <<>> /\ onerr = "absent" /\ src = "" /\ haltAt = 0 /\ pc = 0 /\ vars = <<>> /\ visits = <<>> /\ mode = "build"
        /\ errline = 0 /\ msg = "" /\ total = 0 /\ halt = FALSE /\ calls = <<>> /\ late = 0
AddLine == /\ mode = "build" /\ Len(prog) < MaxLines /\ \E ln \in Lines : prog' = Append(prog, ln)
           /\ UNCHANGED <<onerr, src, haltAt, pc, vars, visits, mode, errline, msg, total, halt, calls, late>>
Start == /\ mode = "build" /\ prog # <<>> /\ mode' = "poll" /\ \E oe \in {"absent", "cont"} : onerr' = oe
         /\ UNCHANGED <<prog, src, haltAt, pc, vars, visits, errline, msg, total, halt, calls, late>>
Next == AddLine \/ Start \/ RunStep \/ EnvHalt
Spec == Init /\ [][Next]_rvars /\ WF_rvars(RunStep)
HaltedRunTerminates == halt ~> Done
EveryRunTerminates == (mode = "poll") ~> Done      \* vacuity guard: must be VIOLATED (some programs loop forever unless halted)
=============================================================================
