CONSTANTS MaxLines = 0 MaxDepth = 0 C0 = 1 Budget = 3000 Scoped = {FALSE} CondCalls = TRUE
SPECIFICATION TSpec
POSTCONDITION Done
CHECK_DEADLOCK FALSE
