------------------------------- MODULE C05_Trace -------------------------------
(* Leg C of C05: larger random programs around one function (scoped or not): many calls of the same
   function after early returns from inside loops and branches, guarded recursion, calls in condition
   position.  TLC rebuilds the block structure and evaluates the tree-walking reference Func!Ref;
   runs that enter a corner the property leaves open (dc) or exceed the reference's fuel are skipped.
   Record k is loaded in one step and judged in the next. *)
EXTENDS Func, Json, IOUtils
Rec == ndJsonDeserialize(IOEnv.TRACE)
VARIABLE l
RECURSIVE Scan(_,_,_,_)
Scan(p, j, stk, acc) ==
  IF j > Len(p) THEN [ok |-> stk = <<>>, struct |-> acc]
  ELSE LET k == p[j].cmd  ln == j - 1 IN
    IF k \in {"if", "for", "fn"} THEN Scan(p, j+1, Append(stk, [k |-> k, line |-> ln, els |-> 0]), acc)
    ELSE IF k = "else" THEN
       IF stk = <<>> \/ stk[Len(stk)].k # "if" \/ stk[Len(stk)].els # 0 THEN [ok |-> FALSE, struct |-> acc]
       ELSE Scan(p, j+1, [stk EXCEPT ![Len(stk)].els = ln], acc)
    ELSE IF k = "end" THEN
       IF stk = <<>> THEN [ok |-> FALSE, struct |-> acc]
       ELSE LET t == stk[Len(stk)] IN
            Scan(p, j+1, SubSeq(stk, 1, Len(stk)-1), [x \in DOMAIN acc \cup {t.line} |-> IF x = t.line THEN [k |-> t.k, els |-> t.els, end |-> ln] ELSE acc[x]])
    ELSE Scan(p, j+1, stk, acc)
Judge(k) == LET r == Rec[k]  x == Ref IN
   IF x.fuel = 0 \/ x.dc THEN PrintT(<<"SKIP", ToJson([rec |-> k, fuel |-> (x.fuel = 0), dc |-> x.dc])>>)
   ELSE IF r.ok /\ r.trace = x.trace /\ r.c = x.v.c /\ r.i = x.v.i /\ r.r = x.v.r THEN TRUE
   ELSE PrintT(<<"VIOL", ToJson([rec |-> k, prog |-> r.prog, ok |-> r.ok, why |-> r.why, trace |-> r.trace, exptrace |-> x.trace,
                                 final |-> <<r.c, r.i, r.r>>, expfinal |-> <<x.v.c, x.v.i, x.v.r>>])>>)
TStep == /\ l <= Len(Rec) + 1 /\ l' = l + 1
         /\ (l > 1 => Judge(l - 1))
         /\ IF l <= Len(Rec)
            THEN LET s == Scan(Rec[l].prog, 1, <<>>, EmptyF) IN
                 /\ prog' = Rec[l].prog /\ struct' = s.struct
                 /\ IF s.ok /\ Rec[l].prog[1].cmd = "fn" THEN TRUE ELSE PrintT(<<"HARNESS", ToJson([rec |-> l, why |-> "generated program is not well nested"])>>)
            ELSE UNCHANGED <<prog, struct>>
         /\ UNCHANGED <<phase, open>> /\ UNCHANGED runVars
TInit == Init /\ l = 1
TSpec == TInit /\ [][TStep]_<<vars, l>>
Done == PrintT(<<"TRACE_DONE", TLCGet("stats").diameter - 2>>)
=============================================================================
