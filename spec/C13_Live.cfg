CONSTANTS Cap = 3 Bounded = FALSE MaxLines = 2
SPECIFICATION Spec
INVARIANT AtMostOneAfterAsyncHalt
PROPERTY HaltedRunTerminates
CHECK_DEADLOCK FALSE
