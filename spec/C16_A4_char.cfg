CONSTANTS Unit = "char" L = 4 EMIT = TRUE
SPECIFICATION Spec
INVARIANT Relations
INVARIANT Emit
INVARIANT EmitNum
CHECK_DEADLOCK FALSE
