------------------------------- MODULE C02_Trace -------------------------------
(* Leg C of C02: random argument templates over Unicode names / values bound by the real runner.
   Each record: the templates, the environment, the written arguments handed to run_instruction and
   the arguments the command received.  written must be Binding!Written of the templates (binds the
   harness), received must be Binding!Sem (R-level: VIOL) and Expansion!Bind (I-level: DRIFT). *)
EXTENDS Binding, Json, IOUtils
Rec == ndJsonDeserialize(IOEnv.TRACE)
VARIABLE l
EnvMap(e) == [k \in {e[i].k : i \in 1..Len(e)} |-> e[CHOOSE i \in 1..Len(e) : e[i].k = k].v]
SpreadVals(as, env) == [i \in 1..Len(as) |-> IF as[i].spread THEN EnvGet(env, as[i].name) ELSE <<>>]
Check(k, r) ==
  LET env == EnvMap(r.env)
      dom == \A i \in 1..Len(r.args) : ArgOK(r.args[i])
      exp == Sem(r.args, 1, env)
      model == Bind(r.written, 1, env)
  IN /\ IF dom /\ WrittenAll(r.args, 1) = r.written THEN TRUE
        ELSE PrintT(<<"HARNESS", ToJson([rec |-> k, why |-> "written arguments are not Binding!Written of the templates"])>>)
     /\ IF r.got = exp THEN TRUE
        ELSE PrintT(<<"VIOL", ToJson([rec |-> k, written |-> r.written, env |-> r.env, exp |-> exp, got |-> r.got, model |-> model,
                                      spreadvals |-> SpreadVals(r.args, env)])>>)
     /\ IF r.got = model THEN TRUE ELSE PrintT(<<"DRIFT", ToJson([rec |-> k, written |-> r.written, env |-> r.env, model |-> model, real |-> r.got])>>)
Init == l = 1
Next == l <= Len(Rec) /\ Check(l, Rec[l]) /\ l' = l + 1
Spec == Init /\ [][Next]_l
Done == PrintT(<<"TRACE_DONE", TLCGet("stats").diameter - 1>>)
=============================================================================
