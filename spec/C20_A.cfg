CONSTANTS N = 2 EMIT = TRUE
SPECIFICATION Spec
INVARIANT LintNeverRuns
INVARIANT RunMirrorsLibrary
INVARIANT Emit
CHECK_DEADLOCK FALSE
