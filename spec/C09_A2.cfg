CONSTANTS VL = 2 EMIT = TRUE
SPECIFICATION Spec
INVARIANT OnlyKnownClasses
INVARIANT Emit
INVARIANT Stat
CHECK_DEADLOCK FALSE
