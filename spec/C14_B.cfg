CONSTANTS NF = 4 MaxLen = 2 MaxIncs = 3 WithErrors = FALSE EMIT = TRUE
SPECIFICATION Spec
INVARIANT PasteEqualsFlatten
INVARIANT Provenance
INVARIANT ErrorsNamed
INVARIANT Emit
CHECK_DEADLOCK FALSE
