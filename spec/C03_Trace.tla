------------------------------- MODULE C03_Trace -------------------------------
(* Leg C of C03/C13: long random programs executed by the real runner.  Records: "prog" (program,
   on_error configuration, source, halt point), "call" (line, bound arguments, variables at entry),
   "onerr" (arguments), "end" (outcome, error line, final variables).  Exec and OnErrorDispatch must
   explain the call / onerr records; Poll, NoCommand, PastEnd, UnknownCommand are silent steps (the
   unhooked runner does not log them); acceptance = the highest record reached (TLCSet register). *)
EXTENDS Runner, Json, IOUtils
Rec == ndJsonDeserialize(IOEnv.TRACE)
VARIABLE l
tvars == <<rvars, l>>
SameMap(a, b) == DOMAIN a = DOMAIN b /\ \A k \in DOMAIN a : a[k] = b[k]
Load(r) == /\ prog' = r.prog /\ onerr' = r.onerr /\ src' = r.src /\ haltAt' = r.haltAt /\ pc' = 0 /\ vars' = <<>> /\ visits' = <<>>
           /\ mode' = "poll" /\ errline' = 0 /\ msg' = "" /\ total' = 0 /\ halt' = FALSE /\ calls' = <<>> /\ late' = 0
TraceInit == /\ l = 1 /\ prog = <<>> /\ onerr = "absent" /\ src = "" /\ haltAt = 0 /\ pc = 0 /\ vars = <<>> /\ visits = <<>>
             /\ mode = "ok" /\ errline = 0 /\ msg = "" /\ total = 0 /\ halt = FALSE /\ calls = <<>> /\ late = 0
IsEvent(e) == l <= Len(Rec) /\ Rec[l].ev = e /\ l' = l + 1
\* a call record is logged at command entry: it must match the state before Exec
TCall == /\ IsEvent("call") /\ mode = "exec" /\ Rec[l].line = pc /\ SameMap(Rec[l].vars, vars)
         /\ Rec[l].args = <<Get(vars, "x"), Get(vars, "y")>> /\ Exec
TOnErr == /\ IsEvent("onerr") /\ mode = "onerr" /\ Rec[l].args = <<msg, ToString(errline), src>> /\ OnErrorDispatch
TSilent == /\ (Poll \/ NoCommand \/ PastEnd \/ UnknownCommand) /\ UNCHANGED l
TEnd == /\ IsEvent("end") /\ Done
        /\ Rec[l].ok = (mode = "ok") /\ Rec[l].errline = errline
        /\ (msg \in {"bang", "oe-crash"} => Rec[l].msg = msg)
        /\ (mode = "ok" => SameMap(Rec[l].vars, vars))
        /\ UNCHANGED rvars
TReset == /\ IsEvent("prog") /\ Done /\ Load(Rec[l])
TraceNext == TCall \/ TOnErr \/ TSilent \/ TEnd \/ TReset
TraceSpec == TraceInit /\ [][TraceNext]_tvars
Track == TLCSet(1, IF l > TLCGet(1) THEN l ELSE TLCGet(1))
Accepted == PrintT(<<"TRACE_REACHED", TLCGet(1) - 1>>)
ASSUME TLCSet(1, 0)
=============================================================================
