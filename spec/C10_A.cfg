CONSTANTS N = 3 EMIT = TRUE IncludeCtx = TRUE
SPECIFICATION Spec
INVARIANT LatestWins
INVARIANT StopsAtFirst
INVARIANT Emit
CHECK_DEADLOCK FALSE
