------------------------------- MODULE C11_MC -------------------------------
(* Leg A of C11: the complete reachable state graph of VarScope over a small universe; every state
   prints a shortest operation path to it and, for every operation, the expected output, map and
   stack for the per-transition replay into the real SDK (leg B). *)
EXTENDS VarScope, Json
CONSTANTS MaxDepth, Wide
Names == {"a", "b", "p::c"}
Values == {"1", "2"}
MCHasPrefix(nm, p) == (p \in {"p", "p::"}) /\ nm = "p::c"
VARIABLES vars, stack, path
\* the runner stores the output in the line's output variable (a value-less result deletes it); only set has one here
Store(e, tgt) == IF tgt = "" THEN e.vars ELSE IF e.out.k = "none" THEN Del(e.vars, {tgt}) ELSE Put(e.vars, tgt, e.out.v)
OutStr(o) == CASE o.k = "none" -> "" [] o.k = "star" -> "*" [] o.k = "names" -> "names" [] OTHER -> o.v
Copies == {<<>>, <<"--copy", "a">>, <<"--copy", "b", "p::c">>, <<"--copy", "a", "a", "b">>}
Ops == { [cmd |-> "set", args |-> <<v>>, tgt |-> nm] : nm \in Names, v \in Values }
   \cup { [cmd |-> "set", args |-> <<>>, tgt |-> nm] : nm \in Names }
   \cup { [cmd |-> "unset", args |-> <<nm>>, tgt |-> ""] : nm \in Names } \cup { [cmd |-> "unset", args |-> <<"a", "b">>, tgt |-> ""] }
   \cup { [cmd |-> "set_by_name", args |-> <<nm, v>>, tgt |-> ""] : nm \in Names, v \in Values }
   \cup { [cmd |-> "set_by_name", args |-> <<nm>>, tgt |-> ""] : nm \in Names }
   \cup { [cmd |-> "get_by_name", args |-> <<nm>>, tgt |-> ""] : nm \in Names }
   \cup { [cmd |-> "is_defined", args |-> <<nm>>, tgt |-> ""] : nm \in Names }
   \cup { [cmd |-> "get_all_var_names", args |-> <<>>, tgt |-> ""] }
   \cup { [cmd |-> "unset_all_vars", args |-> <<>>, tgt |-> ""], [cmd |-> "unset_all_vars", args |-> <<"--prefix", "p">>, tgt |-> ""],
          [cmd |-> "clear_scope", args |-> <<"p", "::">>, tgt |-> ""] }
   \cup { [cmd |-> c, args |-> cp, tgt |-> ""] : c \in {"scope_push_stack", "scope_pop_stack"}, cp \in (IF Wide THEN Copies ELSE {<<>>, <<"--copy", "a", "a", "b">>}) }
Init == vars = <<>> /\ stack = <<>> /\ path = <<>>
Do(op) == LET e == Eff(op, vars, stack) IN
          /\ (op.cmd = "scope_push_stack" => Len(stack) < MaxDepth)
          /\ vars' = Store(e, op.tgt) /\ stack' = e.stack /\ path' = Append(path, op)
Next == \E op \in Ops : Do(op)
Spec == Init /\ [][Next]_<<vars, stack, path>>
View == <<vars, stack>>
\* invariants of the reference itself
PushPopId == \A cp \in {<<>>, <<"--copy", "a">>} :
   LET p == Eff([cmd |-> "scope_push_stack", args |-> cp, tgt |-> ""], vars, stack)
       q == Eff([cmd |-> "scope_pop_stack", args |-> <<>>, tgt |-> ""], p.vars, p.stack)
   IN q.vars = vars /\ q.stack = stack
PopEmptyIsNoOp == stack = <<>> => LET q == Eff([cmd |-> "scope_pop_stack", args |-> <<"--copy", "a">>, tgt |-> ""], vars, stack) IN ~q.ok /\ q.vars = vars /\ q.stack = stack
PushKeepsOnlyDefinedCopies == \A cp \in Copies : LET p == Eff([cmd |-> "scope_push_stack", args |-> cp, tgt |-> ""], vars, stack) IN
   DOMAIN p.vars = CopySet(cp) \cap DOMAIN vars /\ p.stack[Len(p.stack)] = vars
AsRec(f) == [names |-> DOMAIN f, vals |-> f]
Exp(op) == LET e == Eff(op, vars, stack) IN
   [op |-> op, ok |-> e.ok, out |-> OutStr(e.out), vars |-> AsRec(Store(e, op.tgt)), stack |-> [i \in 1..Len(e.stack) |-> AsRec(e.stack[i])], dc |-> e.dc]
Emit == PrintT(<<"REPLAY", ToJson([path |-> path, vars |-> AsRec(vars), stack |-> [i \in 1..Len(stack) |-> AsRec(stack[i])],
                                   next |-> {Exp(op) : op \in Ops}])>>)
=============================================================================
