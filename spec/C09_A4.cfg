CONSTANTS VL = 4 EMIT = TRUE
SPECIFICATION Spec
INVARIANT OnlyKnownClasses
INVARIANT Emit
INVARIANT Stat
CHECK_DEADLOCK FALSE
