------------------------------- MODULE ScriptCmd -------------------------------
(* C19.  Script-implemented library commands (duckscript_sdk/src/types/command.rs::AliasCommand).
   I-level: the wrapper protocol as a state machine:
     Publish   scope::<n>::argument::i for every argument and scope::<n>::arguments = a temporary array handle
     Body*     the command's own instructions: they may set working variables under the prefix scope::<n>::,
               create and release handles, invoke other commands (nested script commands run the same
               protocol under their own prefix), and stop at any point with an error or crash
     Cleanup   remove the temporary array, clear every variable under the prefix, restore the line context,
               drop the loops the body left open
     Return    the body's result (or a crash if more variables exist than before)
   R-level (the property): when the command returns - successfully or with an error - the caller's
   variables are exactly as before apart from the output variable and the documented effect (unset
   removes the named variables), no variable under scope:: remains, and the handle table grew only by
   the documented result (array_concat / set_from_array: one new handle on success).
   The model abstracts variables to names and handles to a counter; Prefix(n) is the set of working
   names of command n. *)
EXTENDS Naturals, Sequences, TLC, FiniteSets
CONSTANTS Caller,        \* the caller's variable names
          Cmds           \* script commands of the model: records [n, eff] with eff in {"none", "newhandle", "unset"}
Prefix(n) == {<<n, "argument::1">>, <<n, "arguments">>, <<n, "work1">>, <<n, "work2">>}
VARIABLES vars, handles, stack, pre, result
\* stack: active invocations, innermost last: [cmd, phase, made (handles the body created and still holds), ret (the handle it will return), calls (nested invocations made)]
svars == <<vars, handles, stack, pre, result>>
Init == vars = Caller /\ handles = 0 /\ stack = <<>> /\ pre = [v |-> Caller, h |-> 0] /\ result = "none"
Top == IF stack = <<>> THEN [cmd |-> [n |-> "", eff |-> ""], phase |-> "", made |-> 0, ret |-> 0, calls |-> 0] ELSE stack[Len(stack)]
SetTop(f) == stack' = [stack EXCEPT ![Len(stack)] = f]
Invoke(c) == /\ Len(stack) < 2 /\ ((stack = <<>> /\ result = "none") \/ (Top.phase = "body" /\ Top.cmd.n # c.n /\ Top.calls < 1))       \* no SDK script command invokes itself
             /\ stack' = Append(IF stack = <<>> THEN stack ELSE [stack EXCEPT ![Len(stack)].calls = @ + 1], [cmd |-> c, phase |-> "publish", made |-> 0, ret |-> 0, calls |-> 0])
             /\ (IF stack = <<>> THEN pre' = [v |-> vars, h |-> handles] /\ result' = "running" ELSE UNCHANGED <<pre, result>>)
             /\ UNCHANGED <<vars, handles>>
Publish == /\ stack # <<>> /\ Top.phase = "publish"
           /\ vars' = vars \cup {<<Top.cmd.n, "argument::1">>, <<Top.cmd.n, "arguments">>} /\ handles' = handles + 1
           /\ SetTop([Top EXCEPT !.phase = "body"]) /\ UNCHANGED <<pre, result>>
BodySet == /\ stack # <<>> /\ Top.phase = "body" /\ \E w \in {"work1", "work2"} : vars' = vars \cup {<<Top.cmd.n, w>>}
           /\ UNCHANGED <<handles, stack, pre, result>>
BodyMakeHandle == /\ stack # <<>> /\ Top.phase = "body" /\ Top.made < 1 /\ handles' = handles + 1 /\ SetTop([Top EXCEPT !.made = @ + 1]) /\ UNCHANGED <<vars, pre, result>>
BodyReleaseHandle == /\ stack # <<>> /\ Top.phase = "body" /\ Top.made > 0 /\ handles' = handles - 1 /\ SetTop([Top EXCEPT !.made = @ - 1]) /\ UNCHANGED <<vars, pre, result>>
BodyUnset == /\ stack # <<>> /\ Top.phase = "body" /\ Top.cmd.eff = "unset" /\ \E x \in Caller : vars' = vars \ {x}
             /\ UNCHANGED <<handles, stack, pre, result>>
\* the body ends: normally (a command with effect "newhandle" keeps exactly the one handle it returns) or with an error at any point
BodyEnd(ok) == /\ stack # <<>> /\ Top.phase = "body"
               /\ (ok => (IF Top.cmd.eff = "newhandle" THEN Top.made = 1 ELSE Top.made = 0))
               /\ (~ok => Top.made = 0)            \* the SDK's bodies create their result only after validating: an error never holds a handle
               /\ SetTop([Top EXCEPT !.phase = "cleanup", !.ret = IF ok THEN Top.made ELSE 0]) /\ UNCHANGED <<vars, handles, pre, result>>
Cleanup == /\ stack # <<>> /\ Top.phase = "cleanup"
           /\ vars' = vars \ Prefix(Top.cmd.n) /\ handles' = handles - 1
           /\ stack' = (IF Len(stack) = 1 THEN <<>>                 \* a handle returned by a nested command is now held by the outer body
                        ELSE [SubSeq(stack, 1, Len(stack) - 1) EXCEPT ![Len(stack) - 1].made = @ + Top.ret])
           /\ (IF Len(stack) = 1 THEN result' = "returned" ELSE UNCHANGED result) /\ UNCHANGED pre
Next == (\E c \in Cmds : Invoke(c)) \/ Publish \/ BodySet \/ BodyMakeHandle \/ BodyReleaseHandle \/ BodyUnset \/ BodyEnd(TRUE) \/ BodyEnd(FALSE) \/ Cleanup
Spec == Init /\ [][Next]_svars
\* ---- the property
IsWorking(x) == x \notin Caller
NoTrace == (stack = <<>> /\ result = "returned") =>
             /\ \A x \in vars : ~IsWorking(x)                          \* no scope:: variable remains
             /\ vars \subseteq pre.v                                    \* nothing added
             /\ handles - pre.h \in {0, 1}                              \* at most the documented result
NoCallerVarLost == (stack = <<>> /\ result = "returned" /\ \A c \in Cmds : c.eff # "unset") => vars = pre.v
=============================================================================
