CONSTANTS MaxH = 2 MaxSize = 2
SPECIFICATION Spec
VIEW View
INVARIANT FailedOpChangesNothing
INVARIANT IdsNeverReused
INVARIANT Emit
CHECK_DEADLOCK FALSE
