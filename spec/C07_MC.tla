------------------------------- MODULE C07_MC -------------------------------
(* Leg A/B of C07: one state per registered, non-excluded command (the registry is read from the file the
   harness wrote); each state prints the command's argument lists for the replay in a worker
   subprocess.  CoverAll: every registered command is either excluded by the property or enumerated. *)
EXTENDS Catalogue, Json, IOUtils, SequencesExt
Registry == ndJsonDeserialize(IOEnv.NAMES)
InDomain == {i \in 1..Len(Registry) : ~Registry[i].excluded}
VARIABLE i
Init == i = 0
Next == i < Len(Registry) /\ i' = i + 1
Spec == Init /\ [][Next]_i
SigNamesExist == \A nm \in DOMAIN Sig : \E k \in 1..Len(Registry) : Registry[k].name = nm
Emit == (i \in InDomain) => PrintT(<<"CMD", ToJson([cmd |-> Registry[i].name, lists |-> SetToSeq(ArgLists(Registry[i].name))])>>)
Counts == (i = 0) => PrintT(<<"COUNTS", Len(Registry), Cardinality(InDomain), Cardinality(UntypedLists), Cardinality(DOMAIN Sig)>>)
=============================================================================
