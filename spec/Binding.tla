------------------------------- MODULE Binding -------------------------------
(* R-level of C02: an argument is written as a template (Lit(t) | Var(n) | EscVar(n))* with t free
   of $ % \, or as the whole-argument spread %{n}.  Sem gives what the command must receive:
   exactly one string per template (values inserted verbatim, never re-scanned), and for a spread
   the space-separated words of the value (none when empty or undefined). *)
EXTENDS Expansion
LitOK(t) == \A i \in 1..Len(t) : t[i] \notin {DOLLAR, PERCENT, BS}
NameOK(nm) == nm # <<>> /\ \A i \in 1..Len(nm) : nm[i] \notin {SP, EQ, RBRACE, LF, CR, TAB}
PartOK(p) == IF p.k = "lit" THEN LitOK(p.t) ELSE (p.k \in {"var", "esc"} /\ NameOK(p.t))
\* an argument is [spread |-> FALSE, parts |-> seq] or [spread |-> TRUE, name |-> n]
ArgOK(a) == IF a.spread THEN NameOK(a.name) ELSE \A i \in 1..Len(a.parts) : PartOK(a.parts[i])
RECURSIVE WrittenParts(_)
WrittenParts(tp) == IF tp = <<>> THEN <<>> ELSE
   (CASE tp[1].k = "lit" -> tp[1].t
      [] tp[1].k = "var" -> <<DOLLAR, LBRACE>> \o tp[1].t \o <<RBRACE>>
      [] tp[1].k = "esc" -> <<BS, DOLLAR, LBRACE>> \o tp[1].t \o <<RBRACE>>) \o WrittenParts(Tail(tp))
\* the argument text the runner receives from the parser (\${ stays as backslash-dollar-brace)
Written(a) == IF a.spread THEN <<PERCENT, LBRACE>> \o a.name \o <<RBRACE>> ELSE WrittenParts(a.parts)
RECURSIVE SemParts(_,_)
SemParts(tp, env) == IF tp = <<>> THEN <<>> ELSE
   (CASE tp[1].k = "lit" -> tp[1].t
      [] tp[1].k = "var" -> EnvGet(env, tp[1].t)
      [] tp[1].k = "esc" -> <<DOLLAR, LBRACE>> \o tp[1].t \o <<RBRACE>>) \o SemParts(Tail(tp), env)
RECURSIVE Words(_,_,_)
Words(v, i, cur) == IF i > Len(v) THEN (IF cur = <<>> THEN <<>> ELSE <<cur>>)
                    ELSE IF v[i] = SP THEN (IF cur = <<>> THEN <<>> ELSE <<cur>>) \o Words(v, i+1, <<>>)
                    ELSE Words(v, i+1, Append(cur, v[i]))
SemArg(a, env) == IF a.spread THEN Words(EnvGet(env, a.name), 1, <<>>) ELSE <<SemParts(a.parts, env)>>
RECURSIVE Sem(_,_,_), WrittenAll(_,_)
Sem(as, i, env) == IF i > Len(as) THEN <<>> ELSE SemArg(as[i], env) \o Sem(as, i+1, env)
WrittenAll(as, i) == IF i > Len(as) THEN <<>> ELSE <<Written(as[i])>> \o WrittenAll(as, i+1)
\* the recorded finding (DESIGN section 9 #9): a spread value is re-tokenised with quote grouping and '#'
\* comments instead of being split at spaces; it can only show on values containing '"' or '#'
HasC(s, c) == \E i \in 1..Len(s) : s[i] = c
RetokenClass(v) == HasC(v, QUOTE) \/ HasC(v, HASH)
\* ---- the inverse of Written on the documented template syntax: the template a written argument denotes, when it
\* is inside the domain of the property (names free of $ % { \ and of the break characters; no stray $ % \)
TNameOK(nm) == NameOK(nm) /\ \A i \in 1..Len(nm) : nm[i] \notin {DOLLAR, PERCENT, LBRACE, BS}
RECURSIVE FindRB(_,_)
FindRB(s, i) == IF i > Len(s) THEN 0 ELSE IF s[i] = RBRACE THEN i ELSE FindRB(s, i+1)
BadT == [ok |-> FALSE, parts |-> <<>>]
FlushLit(lit) == IF lit = <<>> THEN <<>> ELSE <<[k |-> "lit", t |-> lit]>>
RECURSIVE TParts(_,_,_)
TParts(s, i, lit) ==
  IF i > Len(s) THEN [ok |-> TRUE, parts |-> FlushLit(lit)]
  ELSE IF s[i] = DOLLAR /\ i < Len(s) /\ s[i+1] = LBRACE THEN
     LET j == FindRB(s, i+2) IN
     IF j = 0 THEN BadT
     ELSE LET nm == SubSeq(s, i+2, j-1)  rest == TParts(s, j+1, <<>>) IN
          IF ~TNameOK(nm) \/ ~rest.ok THEN BadT ELSE [ok |-> TRUE, parts |-> FlushLit(lit) \o <<[k |-> "var", t |-> nm]>> \o rest.parts]
  ELSE IF s[i] = BS /\ i + 1 < Len(s) /\ s[i+1] = DOLLAR /\ s[i+2] = LBRACE THEN
     LET j == FindRB(s, i+3) IN
     IF j = 0 THEN BadT
     ELSE LET nm == SubSeq(s, i+3, j-1)  rest == TParts(s, j+1, <<>>) IN
          IF ~TNameOK(nm) \/ ~rest.ok THEN BadT ELSE [ok |-> TRUE, parts |-> FlushLit(lit) \o <<[k |-> "esc", t |-> nm]>> \o rest.parts]
  ELSE IF s[i] \in {DOLLAR, PERCENT, BS} THEN BadT
  ELSE TParts(s, i+1, Append(lit, s[i]))
\* [ok, arg]: the template of one written argument
Templ(w) == IF Len(w) >= 4 /\ w[1] = PERCENT /\ w[2] = LBRACE /\ w[Len(w)] = RBRACE /\ TNameOK(SubSeq(w, 3, Len(w)-1))
            THEN [ok |-> TRUE, arg |-> [spread |-> TRUE, name |-> SubSeq(w, 3, Len(w)-1)]]
            ELSE LET r == TParts(w, 1, <<>>) IN [ok |-> r.ok, arg |-> [spread |-> FALSE, parts |-> r.parts]]
Templs(ws) == [i \in 1..Len(ws) |-> Templ(ws[i])]
=============================================================================
