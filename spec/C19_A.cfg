CONSTANTS
  Caller <- MCCaller
  Cmds <- MCCmds
SPECIFICATION Spec
INVARIANT NoTrace
INVARIANT EmitCases
CHECK_DEADLOCK FALSE
