------------------------------- MODULE HaltTrace -------------------------------
(* Leg C of C13, second thread: the real runner executes a non-terminating program on one thread
   while another thread raises the halt flag at a random instant.  Events are ordered only by one
   shared atomic counter: S / F = a harness command starts / finishes, HB / HE = the setter is about
   to store / has stored, End = run_script returned, Reset = next run.  The runner's poll of the
   flag and the setter's store are not logged: they are the silent steps Poll and HaltStore, and TLC
   must find a placement of them that explains the record sequence.  That is possible exactly when
   no S follows an F that follows HE (the instruction whose poll preceded the store may still run). *)
EXTENDS Naturals, Sequences, TLC, Json, IOUtils
Rec == ndJsonDeserialize(IOEnv.TRACE)
\* runner iteration: idle --Poll--> (fetching | stopping); fetching --S--> running --F--> idle; stopping --End--> done
VARIABLES phase, halt, hb, he, l
vars == <<phase, halt, hb, he, l>>
Init == phase = "done" /\ halt = FALSE /\ hb = FALSE /\ he = FALSE /\ l = 1
IsEvent(e) == l <= Len(Rec) /\ Rec[l].ev = e /\ l' = l + 1
Poll == phase = "idle" /\ phase' = (IF halt THEN "stopping" ELSE "fetching") /\ UNCHANGED <<halt, hb, he, l>>
HaltStore == hb /\ ~halt /\ halt' = TRUE /\ UNCHANGED <<phase, hb, he, l>>
Start == IsEvent("S") /\ phase = "fetching" /\ phase' = "running" /\ UNCHANGED <<halt, hb, he>>
Finish == IsEvent("F") /\ phase = "running" /\ phase' = "idle" /\ UNCHANGED <<halt, hb, he>>
HaltBegin == IsEvent("HB") /\ ~hb /\ hb' = TRUE /\ UNCHANGED <<phase, halt, he>>
HaltEnd == IsEvent("HE") /\ halt /\ ~he /\ he' = TRUE /\ UNCHANGED <<phase, halt, hb>>
End == IsEvent("End") /\ phase = "stopping" /\ phase' = "done" /\ UNCHANGED <<halt, hb, he>>
Reset == IsEvent("Reset") /\ phase = "done" /\ phase' = "idle" /\ halt' = FALSE /\ hb' = FALSE /\ he' = FALSE
Next == Poll \/ HaltStore \/ Start \/ Finish \/ HaltBegin \/ HaltEnd \/ End \/ Reset
Spec == Init /\ [][Next]_vars
Track == TLCSet(1, IF l > TLCGet(1) THEN l ELSE TLCGet(1))
Accepted == PrintT(<<"TRACE_REACHED", TLCGet(1) - 1>>)
ASSUME TLCSet(1, 0)
=============================================================================
