------------------------------- MODULE C07_Trace -------------------------------
(* C07 trace validation: one record per case run in a worker subprocess: n = the number of
   invocations (or 1 for a script text / probe) and what each of them returned.  The only transitions
   of the specification are Invoke followed by Return(kind in ResultKinds) (for a script text: the run
   returns "ok" or "err"); "panic", "hang" and "abort" have no counterpart and are reported. *)
EXTENDS Catalogue, Json, IOUtils
Rec == ndJsonDeserialize(IOEnv.TRACE)
VARIABLE l
Legit == ResultKinds \cup {"ok", "err"}
Check(k, r) == IF Len(r.returns) = r.n /\ \A j \in 1..Len(r.returns) : r.returns[j] \in Legit THEN TRUE
               ELSE PrintT(<<"VIOL", ToJson([rec |-> k, case |-> r.case, label |-> r.label, bad |-> {j \in 1..Len(r.returns) : r.returns[j] \notin Legit}])>>)
Init == l = 1
Next == l <= Len(Rec) /\ Check(l, Rec[l]) /\ l' = l + 1
Spec == Init /\ [][Next]_l
Done == PrintT(<<"TRACE_DONE", TLCGet("stats").diameter - 1>>)
=============================================================================
