------------------------------- MODULE C10_MC -------------------------------
(* Leg A of C10: every item sequence up to N items (one item per step); invariants of the reference
   (latest error wins, nothing observed before the first error, exit_on_error stops at the first
   error); every sequence is printed with its expected observations for the replay on the real SDK. *)
EXTENDS OnError, Json
CONSTANTS N, EMIT, IncludeCtx
VARIABLES items
Msgs == {"m1", "m two"}
Items == { [k |-> "fail", ctx |-> c, m |-> (IF c \in {"script", "loopscript"} THEN "*" ELSE m)] : c \in (IF IncludeCtx THEN Ctxs ELSE Ctxs \ {"incl"}), m \in Msgs }
   \cup EoeItems \cup { [k |-> "obs"], [k |-> "seterr"] }
Init == items = <<>>
Next == Len(items) < N /\ \E it \in Items : items' = Append(items, it)
Spec == Init /\ [][Next]_items
Full == Append(items, [k |-> "obs"])
X == Exec(Full)
LatestWins == X.ok => LET o == X.obs[Len(X.obs)]
                          F == {k \in 1..Len(items) : items[k].k = "fail"}
                          E == {k \in 1..Len(items) : items[k].k \in {"fail", "seterr"}} IN
                      /\ o.o = (IF F = {} THEN "" ELSE "false")
                      /\ IF E = {} THEN o.msg = "" /\ o.line = 0
                         ELSE LET k == CHOOSE j \in E : \A i \in E : i <= j IN
                              IF items[k].k = "seterr" THEN o.msg = "se" /\ o.line = 0
                              ELSE o.msg = items[k].m /\ o.line = ErrAt(items, k).line
StopsAtFirst == ~X.ok => \E k \in 1..Len(items) : items[k].k = "fail" /\ X.msg = items[k].m /\ X.line = ErrAt(items, k).line
                          /\ \E j \in 1..(k-1) : items[j].k = "eoe" /\ items[j].on
Emit == EMIT => PrintT(<<"CASE", ToJson([items |-> Full, exp |-> X])>>)
=============================================================================
