------------------------------- MODULE C10_MC -------------------------------
(* Leg A of C10: every item sequence up to N items (one item per step); invariants of the reference
   (latest error wins, nothing observed before the first error, exit_on_error stops at the first
   error); every sequence is printed with its expected observations for the replay on the real SDK. *)
EXTENDS OnError, Json
CONSTANTS N, EMIT, IncludeCtx
VARIABLES items
Msgs == {"m1", "m two"}
Items == { [k |-> "fail", ctx |-> c, m |-> (IF c \in {"script", "loopscript"} THEN "*" ELSE m)] : c \in (IF IncludeCtx THEN Ctxs ELSE Ctxs \ {"incl"}), m \in Msgs }
   \cup EoeItems \cup { [k |-> "obs"] }
Init == items = <<>>
Next == Len(items) < N /\ \E it \in Items : items' = Append(items, it)
Spec == Init /\ [][Next]_items
Full == Append(items, [k |-> "obs"])
X == Exec(Full)
LatestWins == X.ok => LET o == X.obs[Len(X.obs)]
                          F == {k \in 1..Len(items) : items[k].k = "fail"} IN
                      IF F = {} THEN o.msg = "" /\ o.line = 0 /\ o.o = ""
                      ELSE LET k == CHOOSE j \in F : \A i \in F : i <= j IN o.msg = items[k].m /\ o.line = ErrAt(items, k).line /\ o.o = "false"
StopsAtFirst == ~X.ok => \E k \in 1..Len(items) : items[k].k = "fail" /\ X.msg = items[k].m /\ X.line = ErrAt(items, k).line
                          /\ \E j \in 1..(k-1) : items[j].k = "eoe" /\ items[j].on
Emit == EMIT => PrintT(<<"CASE", ToJson([items |-> Full, exp |-> X])>>)
=============================================================================
