CONSTANTS AL = 1
SPECIFICATION Spec
INVARIANT Rejected
INVARIANT Emit
CHECK_DEADLOCK FALSE
