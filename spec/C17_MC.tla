------------------------------- MODULE C17_MC -------------------------------
(* Leg A of C17: (1) every text over an alphabet with NUL, a control character, 1-, 2-, 3- and 4-byte
   characters up to length L (one state per text): Utf8Dec(Utf8(t)) = t, B64Dec(B64(b)) = b; each state
   prints the expected bytes and base64 text; (2) hex of boundary integers; (3) JSON trees up to depth 2
   / width 2 over string / number / bool / null leaves and keys with dots, spaces and brackets: Norm is
   idempotent; every tree is printed with its normal form; (4) maps for the properties round trip. *)
EXTENDS Codec, Json, SequencesExt
CONSTANTS L, EMIT
Sigma == {0, 9, 65, 61, 233, 8364, 128512, 32, 65279}   \* NUL TAB A = e-acute euro emoji space, U+FEFF (its UTF-8 form is the byte-order signature EF BB BF)
VARIABLE t
Init == t = <<>>
Next == Len(t) < L /\ \E c \in Sigma : t' = Append(t, c)
Spec == Init /\ [][Next]_t
RoundTrips == Utf8Dec(Utf8(t)) = t /\ B64Dec(B64(Utf8(t))) = Utf8(t)
EmitText == EMIT => PrintT(<<"TEXT", ToJson([text |-> t, bytes |-> Utf8(t), b64 |-> B64(Utf8(t))])>>)
Ints == {0, 1, 9, 10, 15, 16, 255, 256, 4095, 65535, 65536, 1000000, 2147483647}
Leaves == {Leaf("str", "x"), Leaf("str", ""), Leaf("num", "7"), Leaf("bool", "true"), Leaf("null", "")}
Keys == <<"k", "a.b", "c d[0]">>
KV(k, x) == [key |-> k, val |-> x]
Objs(S) == {Obj(<<>>)} \cup {Obj(<<KV(Keys[1], a)>>) : a \in S} \cup {Obj(<<KV(Keys[2], a), KV(Keys[3], b)>>) : a \in S, b \in S}
Arrs(S) == {Arr(<<>>)} \cup {Arr(<<a>>) : a \in S} \cup {Arr(<<a, b>>) : a \in S, b \in S}
Level1 == Leaves \cup Objs(Leaves) \cup Arrs(Leaves)
Pick == {Leaf("str", "x"), Leaf("null", ""), Leaf("num", "7"), Arr(<<Leaf("null", ""), Leaf("bool", "true")>>), Arr(<<Leaf("null", "")>>), Obj(<<KV("k", Leaf("null", ""))>>),
         Obj(<<KV("a.b", Leaf("str", "x")), KV("k", Leaf("null", ""))>>), Obj(<<>>)}
Trees == Level1 \cup Objs(Pick) \cup Arrs(Pick)
NormIdempotent == \A x \in Trees : Norm(Norm(x)) = Norm(x)
TreeSeq == SetToSeq(Trees)
IntSeq == SetToSeq(Ints)
RECURSIVE DigitsOf(_)
DigitsOf(x) == IF x < 10 THEN <<x>> ELSE DigitsOf(x \div 10) \o <<x % 10>>
\* maps for the properties round trip (map_to_properties then map_load_properties must give the map back)
PropKeys == {"k", "a b", "a=b", "a:b", "#c", "!d", "k.1", "中"}
PropVals == {"v", "", " lead", "trail ", "a=b", "back\\slash", "#x", "中", "x:y"}
Maps == {<<[key |-> k, val |-> v]>> : k \in PropKeys, v \in PropVals} \cup {<<[key |-> "k", val |-> v], [key |-> "z z", val |-> w]>> : v \in PropVals, w \in {"trail ", "v"}}
MapSeq == SetToSeq(Maps)
EmitRest == (EMIT /\ t = <<>>) => /\ \A i \in 1..Len(MapSeq) : PrintT(<<"MAP", ToJson([map |-> MapSeq[i]])>>)
                                  /\ TRUE
\* numbers around 2^53 (where a float stops being exact), 2^63 and the end of the 64-bit range, as decimal digits
BigDecs == {<<9, 0, 0, 7, 1, 9, 9, 2, 5, 4, 7, 4, 0, 9, 9, 2>>,
            <<9, 0, 0, 7, 1, 9, 9, 2, 5, 4, 7, 4, 0, 9, 9, 3>>,
            <<9, 0, 0, 7, 1, 9, 9, 2, 5, 4, 7, 4, 0, 9, 9, 4>>,
            <<9, 0, 0, 7, 1, 9, 9, 2, 5, 4, 7, 4, 0, 9, 9, 5>>,
            <<4, 6, 1, 1, 6, 8, 6, 0, 1, 8, 4, 2, 7, 3, 8, 7, 9, 0, 5>>,
            <<9, 2, 2, 3, 3, 7, 2, 0, 3, 6, 8, 5, 4, 7, 7, 5, 8, 0, 7>>,
            <<9, 2, 2, 3, 3, 7, 2, 0, 3, 6, 8, 5, 4, 7, 7, 5, 8, 0, 8>>,
            <<9, 2, 2, 3, 3, 7, 2, 0, 3, 6, 8, 5, 4, 7, 7, 5, 8, 0, 9>>,
            <<1, 8, 4, 4, 6, 7, 4, 4, 0, 7, 3, 7, 0, 9, 5, 5, 1, 6, 1, 4>>,
            <<1, 8, 4, 4, 6, 7, 4, 4, 0, 7, 3, 7, 0, 9, 5, 5, 1, 6, 1, 5>>,
            <<1, 0, 0, 0, 0, 0, 0, 0, 0, 0, 0, 0, 0, 0, 0, 0, 0, 0, 0, 0>>,
            <<1, 2, 3, 4, 5, 6, 7, 8, 9, 0, 1, 2, 3, 4, 5, 6, 7, 8, 9, 1>>,
            <<4, 2, 9, 4, 9, 6, 7, 2, 9, 6>>,
            <<0>>,
            <<2, 5, 5>>}
BigSeq == SetToSeq(BigDecs)
HexDecAgreesWithHex == \A x \in {0, 1, 15, 16, 255, 256, 4095, 65535, 1000000, 2147483647} : HexDec(DigitsOf(x)) = Hex(x)
EmitRest2 == (EMIT /\ t = <<>>) => /\ PrintT(<<"HEXBIG", ToJson([i \in 1..Len(BigSeq) |-> [n |-> BigSeq[i], hex |-> HexDec(BigSeq[i])]])>>)
                                  /\ PrintT(<<"HEX", ToJson([i \in 1..Len(IntSeq) |-> [n |-> IntSeq[i], hex |-> Hex(IntSeq[i])]])>>)
                                  /\ \A i \in 1..Len(TreeSeq) : PrintT(<<"JSON", ToJson([tree |-> TreeSeq[i], norm |-> Norm(TreeSeq[i])])>>)
=============================================================================
