CONSTANTS MaxLines = 6 MaxDepth = 3 C0 = 2 Budget = 60 Spell = "min" RichCond = FALSE EMIT = TRUE
SPECIFICATION Spec
INVARIANT Refines
INVARIANT ScanSound
INVARIANT EmitProg
CHECK_DEADLOCK FALSE
