CONSTANTS Cap = 30 Bounded = TRUE MaxLines = 2 MaxHalt = 4 EMIT = TRUE Rich = FALSE
SPECIFICATION Spec
INVARIANT TypeOK
INVARIANT FailedNamesLine
INVARIANT NoStartAfterHalt
INVARIANT Emit
CHECK_DEADLOCK FALSE
