------------------------------- MODULE C04_Trace -------------------------------
(* Leg C of C04: larger random well-nested programs (depth <= 6, 100+ lines, every spelling, every
   condition form) executed by the real SDK.  Each record carries the flat program and the observed
   emit trace / final counter / final loop variable.  TLC rebuilds the block structure (StructOf, a
   stack pass that also checks well-nestedness: binds the harness generator) and evaluates the
   tree-walking reference Flow!Ref on it.  Record k is loaded in one step and judged in the next. *)
EXTENDS Flow, Json, IOUtils
Rec == ndJsonDeserialize(IOEnv.TRACE)
VARIABLE l
Kind(cmd) == CASE cmd \in IfNames_ -> "if" [] cmd \in WhileNames_ -> "while" [] cmd \in ForNames_ -> "for"
               [] cmd \in ElseIfNames_ -> "elseif" [] cmd \in ElseNames_ -> "else"
               [] cmd \in EndIfNames_ -> "endif" [] cmd \in EndWhileNames_ -> "endwhile" [] cmd \in EndForNames_ -> "endfor"
               [] cmd = "end" -> "end" [] OTHER -> "simple"
Closes(k, opener) == k = "end" \/ (k = "endif" /\ opener = "if") \/ (k = "endwhile" /\ opener = "while") \/ (k = "endfor" /\ opener = "for")
\* stack pass: returns [ok, struct]
RECURSIVE Scan(_,_,_,_)
Scan(p, j, stk, acc) ==
  IF j > Len(p) THEN [ok |-> stk = <<>>, struct |-> acc]
  ELSE LET k == Kind(p[j].cmd)  ln == j - 1 IN
    IF k \in {"if", "while", "for"} THEN Scan(p, j+1, Append(stk, [k |-> k, line |-> ln, mids |-> <<>>, els |-> FALSE]), acc)
    ELSE IF k \in {"elseif", "else"} THEN
       IF stk = <<>> \/ stk[Len(stk)].k # "if" \/ stk[Len(stk)].els THEN [ok |-> FALSE, struct |-> acc]
       ELSE Scan(p, j+1, [stk EXCEPT ![Len(stk)].mids = Append(@, ln), ![Len(stk)].els = (k = "else")], acc)
    ELSE IF k \in {"end", "endif", "endwhile", "endfor"} THEN
       IF stk = <<>> \/ ~Closes(k, stk[Len(stk)].k) THEN [ok |-> FALSE, struct |-> acc]
       ELSE LET t == stk[Len(stk)] IN
            Scan(p, j+1, SubSeq(stk, 1, Len(stk)-1), [x \in DOMAIN acc \cup {t.line} |-> IF x = t.line THEN [k |-> t.k, mids |-> t.mids, els |-> t.els, end |-> ln] ELSE acc[x]])
    ELSE Scan(p, j+1, stk, acc)
Judge(k) == LET r == Rec[k]  x == Ref IN
   IF x.fuel = 0 THEN PrintT(<<"HARNESS", ToJson([rec |-> k, why |-> "reference ran out of fuel: the generated program is too long-running"])>>)
   ELSE IF r.ok /\ r.trace = x.trace /\ r.c = x.c /\ r.i = x.i THEN TRUE
   ELSE PrintT(<<"VIOL", ToJson([rec |-> k, prog |-> r.prog, ok |-> r.ok, why |-> r.why, trace |-> r.trace, exptrace |-> x.trace, c |-> r.c, expc |-> x.c, i |-> r.i, expi |-> x.i])>>)
TStep == /\ l <= Len(Rec) + 1 /\ l' = l + 1
         /\ (l > 1 => Judge(l - 1))
         /\ IF l <= Len(Rec)
            THEN LET s == Scan(Rec[l].prog, 1, <<>>, EmptyF) IN
                 /\ prog' = Rec[l].prog /\ struct' = s.struct
                 /\ IF s.ok THEN TRUE ELSE PrintT(<<"HARNESS", ToJson([rec |-> l, why |-> "generated program is not well nested"])>>)
            ELSE UNCHANGED <<prog, struct>>
         /\ UNCHANGED <<phase, open>> /\ UNCHANGED runVars
TInit == Init /\ l = 1
TSpec == TInit /\ [][TStep]_<<vars, l>>
Done == PrintT(<<"TRACE_DONE", TLCGet("stats").diameter - 2>>)
=============================================================================
