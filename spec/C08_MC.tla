------------------------------- MODULE C08_MC -------------------------------
(* Leg A of C08 (totality and shape): every line over the class alphabet up to length L, grown one
   character per Next step.  Each state prints the line with the model's result for the replay into
   the real parser (leg B). *)
EXTENDS Parser, Json
CONSTANTS L, EMIT
Sigma == {SP, QUOTE, BS, HASH, EQ, COLON, BANG, DOLLAR, LBRACE, 110, 97, TAB, 233}
VARIABLE line
Init == line = <<>>
Next == Len(line) < L /\ \E c \in Sigma : line' = Append(line, c)
Spec == Init /\ [][Next]_line
WellShaped(r) == IF IsErr(r) THEN r.err \in ErrKinds ELSE r.t \in {"empty", "script", "pre"}
Blank(cs) == LET t == Trim(cs) IN t = <<>> \/ t[1] = HASH
Total == LET r == ParseLine(line) IN WellShaped(r) /\ (Blank(line) => r = Empty)
\* as a script: exactly one instruction (or the error carries line 1); with a neighbour line: two, in order
OnePerLine == LET r == ParseLine(line)  t == ParseText(line \o <<LF>>)  t2 == ParseText(<<97, LF>> \o line \o <<CR, LF>>) IN
   IF IsErr(r) THEN t = [err |-> r.err, line |-> 1] /\ t2 = [err |-> r.err, line |-> 2]
   ELSE t = [ok |-> <<r>>] /\ Len(t2.ok) = 2 /\ t2.ok[2] = r
Emit == EMIT => PrintT(<<"LINE", ToJson([line |-> line, res |-> Norm(ParseLine(line))])>>)
=============================================================================
