------------------------------- MODULE C20_Trace -------------------------------
(* Leg C of C20: random longer scripts (up to 10 statements) through random invocation forms of the
   real duck executable; each record carries the script, the form and the observed exit status,
   presence of an "Error:" line, whether the marker statement ran and the number of echo lines; they
   must equal Cli!Status. *)
EXTENDS Cli, Json, IOUtils
Rec == ndJsonDeserialize(IOEnv.TRACE)
VARIABLE l
Check(k, r) == LET e == Status(r.form, r.script) IN
   IF r.obs = e /\ r.same_output THEN TRUE ELSE PrintT(<<"VIOL", ToJson([rec |-> k, form |-> r.form, script |-> r.script, obs |-> r.obs, exp |-> e, same_output |-> r.same_output])>>)
Init == l = 1
Next == l <= Len(Rec) /\ Check(l, Rec[l]) /\ l' = l + 1
Spec == Init /\ [][Next]_l
Done == PrintT(<<"TRACE_DONE", TLCGet("stats").diameter - 1>>)
=============================================================================
