------------------------------- MODULE FileTree -------------------------------
(* C18.  R-level: the file commands are operations on a simple file tree: tree maps every path of a
   small universe to absent / dir / file(content).  The universe is a pool of relative paths in three
   levels with a space and a non-ASCII character in names; Parent / Base are explicit tables ("" = the
   working directory, always a directory).  Eff(op, t) gives the tree after the operation and the
   command's output: "true" / "false" / a text prefixed with "=" (exact) / "?" (unconstrained: the
   documentation does not fix it) / "skip" (the case is outside the property's domain and not compared)
   / "L:" followed by the expected listing for glob_array. *)
EXTENDS Naturals, Sequences, TLC, FiniteSets
\* Universe 1: three levels, a space and a non-ASCII character in names.
\* Universe 2: the targets of "move / copy into an existing directory" are inside the universe (d/a.txt, d/n.txt) and
\*             one directory name carries a dot (v1.2: a directory, whatever its name looks like).
CONSTANT Pool
Paths == IF Pool = 1 THEN {"a.txt", "d", "d/b.txt", "d/s p", "d/s p/c é.txt", "n.txt"}
         ELSE {"a.txt", "n.txt", "v1.2", "v1.2/a.txt", "d", "d/a.txt", "d/n.txt"}
Parent == [p \in Paths |-> CASE p = "d/b.txt" -> "d" [] p = "d/s p" -> "d" [] p = "d/s p/c é.txt" -> "d/s p"
                             [] p = "v1.2/a.txt" -> "v1.2" [] p = "d/a.txt" -> "d" [] p = "d/n.txt" -> "d" [] OTHER -> ""]
Base == [p \in Paths |-> CASE p = "d/b.txt" -> "b.txt" [] p = "d/s p" -> "s p" [] p = "d/s p/c é.txt" -> "c é.txt"
                           [] p = "v1.2/a.txt" -> "a.txt" [] p = "d/a.txt" -> "a.txt" [] p = "d/n.txt" -> "n.txt" [] OTHER -> p]
\* paths used as files (never made a directory by the generated cases)
FilePaths == IF Pool = 1 THEN {"a.txt", "d/b.txt", "d/s p/c é.txt", "n.txt"} ELSE {"a.txt", "n.txt", "v1.2/a.txt", "d/a.txt", "d/n.txt"}
Sources == IF Pool = 1 THEN {"a.txt", "d/b.txt"} ELSE {"a.txt", "n.txt"}                 \* sources of cp / mv
Contents == {"", "x"}
Absent == [k |-> "absent", c |-> ""]
Dir == [k |-> "dir", c |-> ""]
File(c) == [k |-> "file", c |-> c]
Kind(t, p) == IF p = "" THEN "dir" ELSE t[p].k
Consistent(t) == \A p \in Paths : t[p].k # "absent" => Kind(t, Parent[p]) = "dir"
RECURSIVE Ancestors(_)
Ancestors(p) == IF p = "" THEN {} ELSE IF Parent[p] = "" THEN {} ELSE {Parent[p]} \cup Ancestors(Parent[p])
AncestorIsFile(t, p) == \E q \in Ancestors(p) : t[q].k = "file"
WithParents(t, p) == [q \in Paths |-> IF q \in Ancestors(p) THEN Dir ELSE t[q]]
Children(t, p) == {q \in Paths : Parent[q] = p /\ t[q].k # "absent"}
RECURSIVE Sub(_)
Sub(p) == {p} \cup UNION {Sub(q) : q \in {x \in Paths : Parent[x] = p}}
Fail(t) == [t |-> t, out |-> "false"]
Ok(t, o) == [t |-> t, out |-> o]
Into(q, p) == {x \in Paths : Parent[x] = q /\ Base[x] = Base[p]}
Eff(op, t) ==
  LET p == op.a[1] IN
  CASE op.cmd \in {"writefile", "appendfile", "write_binary"} ->
         LET c == op.a[2]
             old == IF t[p].k = "file" /\ op.cmd = "appendfile" THEN t[p].c ELSE "" IN
         IF t[p].k = "dir" \/ AncestorIsFile(t, p) THEN Fail(t) ELSE Ok([WithParents(t, p) EXCEPT ![p] = File(old \o c)], "true")
    [] op.cmd = "touch" -> IF t[p].k = "dir" \/ AncestorIsFile(t, p) THEN Fail(t)
                           ELSE IF t[p].k = "file" THEN Ok(t, "true") ELSE Ok([WithParents(t, p) EXCEPT ![p] = File("")], "true")
    [] op.cmd = "mkdir" -> IF t[p].k = "file" \/ AncestorIsFile(t, p) THEN Fail(t) ELSE Ok([WithParents(t, p) EXCEPT ![p] = Dir], "true")
    [] op.cmd = "rm" ->
         IF Len(op.a) = 2 THEN LET q == op.a[2] IN Ok([x \in Paths |-> IF x \in Sub(q) THEN Absent ELSE t[x]], IF t[q].k = "absent" THEN "?" ELSE "true")
         ELSE IF t[p].k = "absent" THEN Ok(t, "?")
         ELSE IF t[p].k = "dir" /\ Children(t, p) # {} THEN Fail(t)
         ELSE Ok([t EXCEPT ![p] = Absent], "true")
    \* rm <p> <q>: every named path that exists (files here) is gone afterwards, whatever stands before it in the list
    [] op.cmd = "rm2" -> LET q == op.a[2] IN
         IF t[p].k = "dir" \/ t[q].k = "dir" THEN Ok(t, "skip")
         ELSE Ok([x \in Paths |-> IF x \in {p, q} THEN Absent ELSE t[x]], IF t[p].k = "file" /\ t[q].k = "file" THEN "true" ELSE "?")
    [] op.cmd = "rmdir" -> IF t[p].k = "absent" THEN Ok(t, "?") ELSE IF t[p].k = "file" \/ Children(t, p) # {} THEN Fail(t) ELSE Ok([t EXCEPT ![p] = Absent], "true")
    [] op.cmd \in {"readfile", "read_binary"} -> IF t[p].k = "file" THEN Ok(t, "=" \o t[p].c) ELSE Ok(t, "none-or-false")
    [] op.cmd = "is_path_exists" -> Ok(t, IF t[p].k # "absent" THEN "true" ELSE "false")
    [] op.cmd = "is_file" -> Ok(t, IF t[p].k = "file" THEN "true" ELSE "false")
    [] op.cmd = "is_dir" -> Ok(t, IF t[p].k = "dir" THEN "true" ELSE "false")
    [] op.cmd = "get_file_size" -> Ok(t, IF t[p].k = "file" THEN ToString(Len(t[p].c)) ELSE "false")
    [] op.cmd = "ls" -> Ok(t, "L:")                 \* glob_array <p>/* : the children of p (the harness reads the expected set from the tree)
    [] op.cmd = "basename" -> Ok(t, "=" \o Base[p])
    [] op.cmd = "dirname" -> Ok(t, IF Parent[p] = "" THEN "none" ELSE "=" \o Parent[p])
    [] op.cmd = "cp" ->
         LET q == op.a[2] IN
         IF t[p].k # "file" THEN (IF t[p].k = "absent" THEN Fail(t) ELSE Ok(t, "skip"))      \* directory sources: outside the domain
         ELSE IF q = p THEN Ok(t, "true")                                                    \* an equal target: nothing changes
         ELSE IF t[q].k = "dir" \/ AncestorIsFile(t, q) THEN Fail(t)
         ELSE Ok([WithParents(t, q) EXCEPT ![q] = t[p]], "true")
    \* the same file under two spellings (source d/../<p>, target <p>): copying / moving a file onto itself changes nothing;
    \* the detour is only a path when d is a directory
    [] op.cmd \in {"cp_detour", "mv_detour"} ->
         IF t[p].k = "dir" THEN Ok(t, "skip")
         ELSE IF t[p].k = "file" /\ Kind(t, "d") = "dir" THEN Ok(t, "true") ELSE Fail(t)
    [] op.cmd = "mv" ->
         LET q == op.a[2] IN
         IF t[p].k # "file" THEN (IF t[p].k = "absent" THEN Fail(t) ELSE Ok(t, "skip"))
         ELSE IF q = p THEN Ok(t, "true")
         ELSE IF t[q].k = "dir" THEN                                       \* into the existing directory
              (IF Into(q, p) = {} THEN Ok(t, "skip") ELSE LET x == CHOOSE y \in Into(q, p) : TRUE IN
                 \* an entry of that name already inside the directory: the property does not say whether it is replaced (skip)
                 IF x = p THEN Ok(t, "skip") ELSE IF t[x].k # "absent" THEN Ok(t, "skip") ELSE Ok([t EXCEPT ![x] = t[p], ![p] = Absent], "true"))
         ELSE IF t[q].k = "absent" /\ q \notin FilePaths THEN Ok(t, "skip")   \* a missing target without extension: the documentation's example makes a directory; the property does not cover it
         ELSE IF AncestorIsFile(t, q) THEN Fail(t)
         ELSE Ok([WithParents(t, q) EXCEPT ![q] = t[p], ![p] = Absent], "true")
Trees == { t \in [Paths -> {Absent, Dir} \cup {File(c) : c \in Contents}] : Consistent(t) /\ \A p \in FilePaths : t[p].k # "dir" }
Ops == { [cmd |-> c, a |-> <<p, "x">>] : c \in {"writefile", "appendfile", "write_binary"}, p \in Paths }
   \cup { [cmd |-> c, a |-> <<p, "">>] : c \in {"writefile", "appendfile"}, p \in Paths }        \* empty content still creates / truncates
   \cup { [cmd |-> c, a |-> <<p>>] : c \in {"touch", "mkdir", "rm", "rmdir", "readfile", "read_binary", "is_path_exists", "is_file", "is_dir", "get_file_size", "ls", "basename", "dirname"}, p \in Paths }
   \cup { [cmd |-> "rm", a |-> <<"-r", p>>] : p \in Paths }
   \cup { [cmd |-> c, a |-> <<p, q>>] : c \in {"cp", "mv"}, p \in Sources, q \in Paths }
   \cup { [cmd |-> c, a |-> <<"a.txt">>] : c \in {"cp_detour", "mv_detour"} }
   \cup ({ [cmd |-> "rm2", a |-> <<x, y>>] : x \in FilePaths, y \in FilePaths } \ { [cmd |-> "rm2", a |-> <<x, x>>] : x \in FilePaths })
=============================================================================
