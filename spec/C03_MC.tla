------------------------------- MODULE C03_MC -------------------------------
(* Leg A of C03/C13: programs are built line by line (phase "build"), then run by Runner; at the end
   of every run the behaviour (program, on_error configuration, halt point, every invocation with the
   arguments it saw, final variables, outcome) is printed for the replay into the real runner. *)
EXTENDS Runner, Json
CONSTANTS MaxLines, MaxHalt, EMIT, Rich
R(k, hasv, v, l, m) == [k |-> k, hasv |-> hasv, v |-> v, l |-> l, n |-> m]
Results == {R("cont", FALSE, "", "", 0), R("cont", TRUE, "val", "", 0), R("gotoL", FALSE, "", ":a", 0), R("gotoL", TRUE, "3", ":b", 0),
            R("gotoL", TRUE, "val", ":c", 0), R("gotoN", TRUE, "0", "", 0), R("gotoN", FALSE, "", "", 7), R("exit", FALSE, "", "", 0),
            R("exit", TRUE, "0", "", 0), R("exit", TRUE, "3", "", 0), R("exit", TRUE, "val", "", 0), R("err", TRUE, "boom", "", 0), R("crash", TRUE, "bang", "", 0)}
         \cup (IF Rich THEN {R("gotoN", TRUE, "val", "", 1), R("exit", TRUE, "-2", "", 0)} ELSE {})
Labels == {"", ":a", ":b"}
Outs == {"", "x"} \cup (IF Rich THEN {"y"} ELSE {})
Lines == { [label |-> lb, out |-> o, cmd |-> "", res |-> <<>>, rep |-> FALSE] : lb \in Labels, o \in Outs }
    \cup { [label |-> lb, out |-> "", cmd |-> "nosuch", res |-> <<>>, rep |-> FALSE] : lb \in {""} }
    \cup { [label |-> lb, out |-> o, cmd |-> "res", res |-> <<r>>, rep |-> FALSE] : lb \in Labels, o \in Outs, r \in Results }
Init == /\ prog = <<>> /\ onerr = "absent" /\ src = "" /\ haltAt = 0 /\ pc = 0 /\ vars = <<>> /\ visits = <<>> /\ mode = "build"
        /\ errline = 0 /\ msg = "" /\ total = 0 /\ halt = FALSE /\ calls = <<>> /\ late = 0
AddLine == /\ mode = "build" /\ Len(prog) < MaxLines /\ \E ln \in Lines : prog' = Append(prog, ln)
           /\ UNCHANGED <<onerr, src, haltAt, pc, vars, visits, mode, errline, msg, total, halt, calls, late>>
Start == /\ mode = "build" /\ prog # <<>> /\ mode' = "poll"
         /\ \E oe \in {"absent", "cont", "exit", "crash"}, s \in {"", "F"}, h \in 0..MaxHalt : onerr' = oe /\ src' = s /\ haltAt' = h
         /\ UNCHANGED <<prog, pc, vars, visits, errline, msg, total, halt, calls, late>>
Next == AddLine \/ Start \/ RunStep
Spec == Init /\ [][Next]_rvars
TypeOK == mode \in {"build", "poll", "exec", "onerr", "ok", "err"} /\ total <= Cap + 1
AsRec(f) == [names |-> DOMAIN f, vals |-> f]
Emit == (EMIT /\ Done) => PrintT(<<"RUN", ToJson([prog |-> prog, onerr |-> onerr, src |-> src, haltAt |-> haltAt, calls |-> calls,
                                               vars |-> AsRec(vars), ok |-> (mode = "ok"), errline |-> errline, msg |-> msg, halted |-> halt])>>)
=============================================================================
