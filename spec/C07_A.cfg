SPECIFICATION Spec
INVARIANT SigNamesExist
INVARIANT Emit
INVARIANT Counts
CHECK_DEADLOCK FALSE
