------------------------------- MODULE Handles -------------------------------
(* C12.  R-level: collections behind handles are plain vectors, key-value maps and sets of strings.
   State st = [hs, next]: hs maps a live handle id (1, 2, ...: ids are never reused) to [k, v] with
   k in {"list", "map", "set"}; next = number of handles created so far.  The real handles are
   random strings; the harness keeps the bijection id <-> real handle (and checks injectivity).
   An operation is [cmd, h, args]: h = a handle reference "h1", "h2", ... (live or released) or "bogus"
   (a string that looks like a handle but was never issued); args = values / indexes / other refs.
   Eff gives the new state and the output descriptor:
     [k |-> "lit", v]     exactly this text            [k |-> "none"]    no output
     [k |-> "new"]        a fresh handle (the new id)  [k |-> "class"]   success class (anything but "false")
   An operation on a released, unknown or wrong-kind handle yields "false" and changes nothing;
   is_array / is_map / is_set answer false.  Arrays made from a set or from map keys hold the
   elements in some order: the model keeps them sorted and the harness normalises the real array. *)
EXTENDS Naturals, Sequences, TLC, FiniteSets, SequencesExt
CONSTANTS MaxH
Lit(v) == [k |-> "lit", v |-> v]
None == [k |-> "none", v |-> ""]
New == [k |-> "new", v |-> ""]
Class == [k |-> "class", v |-> ""]
False == Lit("false")
True == Lit("true")
B(x) == IF x THEN True ELSE False
RefNames == [i \in 1..60 |-> "h" \o ToString(i)]
IdOf(ref) == IF \E i \in 1..60 : RefNames[i] = ref THEN CHOOSE i \in 1..60 : RefNames[i] = ref ELSE 0
Live(st, ref) == IdOf(ref) \in DOMAIN st.hs
KindOf(st, ref) == IF Live(st, ref) THEN st.hs[IdOf(ref)].k ELSE "none"
Val(st, ref) == st.hs[IdOf(ref)].v
R(st, out) == [st |-> st, out |-> out]
Upd(st, ref, v) == [st EXCEPT !.hs[IdOf(ref)].v = v]
Create(st, k, v) == [hs |-> [i \in DOMAIN st.hs \cup {st.next + 1} |-> IF i = st.next + 1 THEN [k |-> k, v |-> v] ELSE st.hs[i]], next |-> st.next + 1]
NumNames == [i \in 1..41 |-> ToString(i - 1)]            \* "0" .. "40"; anything else ("zz", "-1") is not an index
IsNum(s) == \E i \in 1..41 : NumNames[i] = s
NumOf(s) == IF IsNum(s) THEN (CHOOSE i \in 1..41 : NumNames[i] = s) - 1 ELSE 99
DropAt(s, i) == [j \in 1..(Len(s)-1) |-> IF j < i THEN s[j] ELSE s[j+1]]
RECURSIVE PosOf(_,_,_)
PosOf(s, v, i) == IF i > Len(s) THEN 0 ELSE IF s[i] = v THEN i ELSE PosOf(s, v, i+1)
Order == <<"", "0", "1", "2", "3", "4", "k", "u", "v">>        \* the canonical order of values used for arrays made from sets / map keys
Sorted(S) == SelectSeq(Order, LAMBDA x : x \in S) \o SetToSeq(S \ {Order[i] : i \in 1..Len(Order)})
RECURSIVE JoinWith(_,_)
JoinWith(s, sep) == IF s = <<>> THEN "" ELSE IF Len(s) = 1 THEN s[1] ELSE s[1] \o sep \o JoinWith(Tail(s), sep)
RangeSeq(a, b) == [j \in 1..(b - a) |-> ToString(a + j - 1)]
Eff(op, st) ==
  LET h == op.h  a == op.args  kind == KindOf(st, h) IN
  CASE op.cmd = "array" -> R(Create(st, "list", a), New)
    [] op.cmd = "map" -> R(Create(st, "map", <<>>), New)
    [] op.cmd = "set_new" -> R(Create(st, "set", {a[i] : i \in 1..Len(a)}), New)
    [] op.cmd = "range" -> IF IsNum(a[1]) /\ IsNum(a[2]) /\ NumOf(a[1]) <= NumOf(a[2]) THEN R(Create(st, "list", RangeSeq(NumOf(a[1]), NumOf(a[2]))), New) ELSE R(st, False)
    [] op.cmd = "is_array" -> R(st, B(kind = "list"))
    [] op.cmd = "is_map" -> R(st, B(kind = "map"))
    [] op.cmd = "is_set" -> R(st, B(kind = "set"))
    [] op.cmd = "release" -> IF Live(st, h) THEN R([st EXCEPT !.hs = [i \in DOMAIN st.hs \ {IdOf(h)} |-> st.hs[i]]], True) ELSE R(st, False)
    \* ---- arrays
    [] op.cmd \in {"array_push", "array_pop", "array_get", "array_set", "array_remove", "array_clear", "array_length", "array_is_empty", "array_contains", "array_join", "array_concat", "set_from_array"} ->
         IF kind # "list" THEN R(st, False)
         ELSE LET s == Val(st, h) IN
          (CASE op.cmd = "array_push" -> R(Upd(st, h, s \o a), True)
             [] op.cmd = "array_pop" -> IF s = <<>> THEN R(st, None) ELSE R(Upd(st, h, SubSeq(s, 1, Len(s)-1)), Lit(s[Len(s)]))
             [] op.cmd = "array_get" -> IF ~IsNum(a[1]) THEN R(st, False) ELSE IF NumOf(a[1]) < Len(s) THEN R(st, Lit(s[NumOf(a[1]) + 1])) ELSE R(st, None)
             [] op.cmd = "array_set" -> IF IsNum(a[1]) /\ NumOf(a[1]) < Len(s) THEN R(Upd(st, h, [s EXCEPT ![NumOf(a[1]) + 1] = a[2]]), True) ELSE R(st, False)
             [] op.cmd = "array_remove" -> IF IsNum(a[1]) /\ NumOf(a[1]) < Len(s) THEN R(Upd(st, h, DropAt(s, NumOf(a[1]) + 1)), True) ELSE R(st, False)
             [] op.cmd = "array_clear" -> R(Upd(st, h, <<>>), True)
             [] op.cmd = "array_length" -> R(st, Lit(ToString(Len(s))))
             [] op.cmd = "array_is_empty" -> R(st, B(s = <<>>))
             [] op.cmd = "array_contains" -> LET i == PosOf(s, a[1], 1) IN R(st, IF i = 0 THEN False ELSE Lit(ToString(i - 1)))
             [] op.cmd = "array_join" -> R(st, Lit(JoinWith(s, a[1])))
             [] op.cmd = "array_concat" -> IF KindOf(st, a[1]) = "list" THEN R(Create(st, "list", s \o Val(st, a[1])), New) ELSE R(st, False)
             [] op.cmd = "set_from_array" -> R(Create(st, "set", {s[i] : i \in 1..Len(s)}), New))
    \* ---- maps
    [] op.cmd \in {"map_put", "map_get", "map_remove", "map_size", "map_keys", "map_clear", "map_contains_key", "map_contains_value", "map_is_empty"} ->
         IF kind # "map" THEN R(st, False)
         ELSE LET m == Val(st, h) IN
          (CASE op.cmd = "map_put" -> R(Upd(st, h, [x \in DOMAIN m \cup {a[1]} |-> IF x = a[1] THEN a[2] ELSE m[x]]), Class)
             [] op.cmd = "map_get" -> R(st, IF a[1] \in DOMAIN m THEN Lit(m[a[1]]) ELSE None)
             [] op.cmd = "map_remove" -> IF a[1] \in DOMAIN m THEN R(Upd(st, h, [x \in DOMAIN m \ {a[1]} |-> m[x]]), Lit(m[a[1]])) ELSE R(st, None)
             [] op.cmd = "map_size" -> R(st, Lit(ToString(Cardinality(DOMAIN m))))
             [] op.cmd = "map_keys" -> R(Create(st, "list", Sorted(DOMAIN m)), New)
             [] op.cmd = "map_clear" -> R(Upd(st, h, <<>>), True)
             [] op.cmd = "map_contains_key" -> R(st, B(a[1] \in DOMAIN m))
             [] op.cmd = "map_contains_value" -> R(st, B(\E x \in DOMAIN m : m[x] = a[1]))
             [] op.cmd = "map_is_empty" -> R(st, B(DOMAIN m = {})))
    \* ---- sets
    [] op.cmd \in {"set_put", "set_remove", "set_contains", "set_size", "set_clear", "set_to_array", "set_is_empty"} ->
         IF kind # "set" THEN R(st, False)
         ELSE LET s == Val(st, h) IN
          (CASE op.cmd = "set_put" -> R(Upd(st, h, s \cup {a[1]}), Class)
             [] op.cmd = "set_remove" -> R(Upd(st, h, s \ {a[1]}), B(a[1] \in s))
             [] op.cmd = "set_contains" -> R(st, B(a[1] \in s))
             [] op.cmd = "set_size" -> R(st, Lit(ToString(Cardinality(s))))
             [] op.cmd = "set_clear" -> R(Upd(st, h, {}), True)
             [] op.cmd = "set_to_array" -> R(Create(st, "list", Sorted(s)), New)
             [] op.cmd = "set_is_empty" -> R(st, B(s = {})))
Creates(op, st) == Eff(op, st).out = New
=============================================================================
