------------------------------- MODULE Codec -------------------------------
(* C17.  R-level: the encodings as arithmetic on integers, so that TLC is an independent oracle for the
   bytes and the encoded text, not only for the round trip.
   Utf8 / Utf8Dec : code points <-> bytes;  B64 / B64Dec : bytes <-> base64 text (code points);
   Hex : non-negative integer -> "0x" lower-case hexadecimal.
   JSON documents are trees of uniform nodes [t, v, items] (objects keep their members in a sequence).
   Norm is the documented normalisation of json_parse --collection followed by json_encode
   --collection: scalars become strings, nulls are dropped (in objects and in arrays). *)
EXTENDS Integers, Sequences, TLC, FiniteSets
RECURSIVE Utf8(_)
Enc(c) == IF c < 128 THEN <<c>>
          ELSE IF c < 2048 THEN <<192 + (c \div 64), 128 + (c % 64)>>
          ELSE IF c < 65536 THEN <<224 + (c \div 4096), 128 + ((c \div 64) % 64), 128 + (c % 64)>>
          ELSE <<240 + (c \div 262144), 128 + ((c \div 4096) % 64), 128 + ((c \div 64) % 64), 128 + (c % 64)>>
Utf8(s) == IF s = <<>> THEN <<>> ELSE Enc(s[1]) \o Utf8(Tail(s))
RECURSIVE Utf8Dec(_)
Utf8Dec(b) == IF b = <<>> THEN <<>>
   ELSE IF b[1] < 128 THEN <<b[1]>> \o Utf8Dec(Tail(b))
   ELSE IF b[1] < 224 THEN <<(b[1] - 192) * 64 + (b[2] - 128)>> \o Utf8Dec(SubSeq(b, 3, Len(b)))
   ELSE IF b[1] < 240 THEN <<(b[1] - 224) * 4096 + (b[2] - 128) * 64 + (b[3] - 128)>> \o Utf8Dec(SubSeq(b, 4, Len(b)))
   ELSE <<(b[1] - 240) * 262144 + (b[2] - 128) * 4096 + (b[3] - 128) * 64 + (b[4] - 128)>> \o Utf8Dec(SubSeq(b, 5, Len(b)))
\* base64 alphabet as code points
B64Char(x) == IF x < 26 THEN 65 + x ELSE IF x < 52 THEN 97 + (x - 26) ELSE IF x < 62 THEN 48 + (x - 52) ELSE IF x = 62 THEN 43 ELSE 47
B64Val(c) == IF c >= 65 /\ c <= 90 THEN c - 65 ELSE IF c >= 97 /\ c <= 122 THEN c - 97 + 26 ELSE IF c >= 48 /\ c <= 57 THEN c - 48 + 52 ELSE IF c = 43 THEN 62 ELSE 63
RECURSIVE B64(_)
B64(b) == IF b = <<>> THEN <<>>
   ELSE IF Len(b) = 1 THEN <<B64Char(b[1] \div 4), B64Char((b[1] % 4) * 16), 61, 61>>
   ELSE IF Len(b) = 2 THEN <<B64Char(b[1] \div 4), B64Char((b[1] % 4) * 16 + b[2] \div 16), B64Char((b[2] % 16) * 4), 61>>
   ELSE <<B64Char(b[1] \div 4), B64Char((b[1] % 4) * 16 + b[2] \div 16), B64Char((b[2] % 16) * 4 + b[3] \div 64), B64Char(b[3] % 64)>> \o B64(SubSeq(b, 4, Len(b)))
RECURSIVE B64Dec(_)
B64Dec(t) == IF t = <<>> THEN <<>>
   ELSE LET a == B64Val(t[1])  b == B64Val(t[2]) IN
     IF t[3] = 61 THEN <<a * 4 + b \div 16>>
     ELSE LET c == B64Val(t[3]) IN
       IF t[4] = 61 THEN <<a * 4 + b \div 16, (b % 16) * 16 + c \div 4>>
       ELSE <<a * 4 + b \div 16, (b % 16) * 16 + c \div 4, (c % 4) * 64 + B64Val(t[4])>> \o B64Dec(SubSeq(t, 5, Len(t)))
HexDigit(d) == IF d < 10 THEN 48 + d ELSE 97 + (d - 10)
RECURSIVE HexDigits(_)
HexDigits(x) == IF x < 16 THEN <<HexDigit(x)>> ELSE HexDigits(x \div 16) \o <<HexDigit(x % 16)>>
Hex(x) == <<48, 120>> \o HexDigits(x)
\* the same on a decimal numeral given as its digits (most significant first): numbers beyond TLC's 32-bit integers.
\* Long division by 16, digit by digit; every intermediate value stays below 160.
RECURSIVE LongDiv16(_,_,_,_)
LongDiv16(ds, i, rem, q) == IF i > Len(ds) THEN [q |-> q, r |-> rem]
   ELSE LET cur == rem * 10 + ds[i] IN LongDiv16(ds, i + 1, cur % 16, IF q = <<>> /\ cur \div 16 = 0 THEN <<>> ELSE Append(q, cur \div 16))
RECURSIVE HexOfDigits(_)
HexOfDigits(ds) == LET d == LongDiv16(ds, 1, 0, <<>>) IN IF d.q = <<>> THEN <<HexDigit(d.r)>> ELSE HexOfDigits(d.q) \o <<HexDigit(d.r)>>
HexDec(ds) == <<48, 120>> \o HexOfDigits(ds)
\* ---- JSON: every node is [t, v, items]: t in obj | arr | str | num | bool | null; v = the scalar's text;
\* items = sequence of [key, val] (key = "" in arrays)
Node(t, v, items) == [t |-> t, v |-> v, items |-> items]
Leaf(k, v) == Node(k, v, <<>>)
Obj(kvs) == Node("obj", "", kvs)
Arr(xs) == Node("arr", "", [i \in 1..Len(xs) |-> [key |-> "", val |-> xs[i]]])
RECURSIVE Norm(_)
Norm(n) ==
  IF n.t \in {"num", "bool"} THEN Leaf("str", n.v)
  ELSE IF n.t \in {"obj", "arr"} THEN LET kept == SelectSeq(n.items, LAMBDA e : e.val.t # "null") IN
       Node(n.t, "", [i \in 1..Len(kept) |-> [key |-> kept[i].key, val |-> Norm(kept[i].val)]])
  ELSE n
=============================================================================
