CONSTANTS MaxLines = 7 MaxDepth = 3 C0 = 1 Budget = 60 Scoped = {FALSE, TRUE} CondCalls = FALSE EMIT = TRUE
SPECIFICATION Spec
INVARIANT Refines
INVARIANT EmitProg

CHECK_DEADLOCK FALSE
