------------------------------- MODULE Registry -------------------------------
(* C15.  R-level: the registry is a name table (cmds: name -> declared aliases) plus an alias table
   (al: alias -> name) consulted first.  I-level: duckscript/src/types/command.rs::Commands
   (icmds, ial), one operator per method.  path is a history variable (hidden by VIEW) that gives
   every state a shortest operation path for the replay into the real Commands. *)
EXTENDS Naturals, Sequences, TLC, FiniteSets, Json
CONSTANTS Names, Descs          \* universe of names; command descriptors [n |-> name, a |-> set of aliases]
VARIABLES cmds, al, icmds, ial, path
vars == <<cmds, al, icmds, ial, path>>
Put(f, k, v) == [x \in DOMAIN f \cup {k} |-> IF x = k THEN v ELSE f[x]]
Init == cmds = <<>> /\ al = <<>> /\ icmds = <<>> /\ ial = <<>> /\ path = <<>>
\* ---- R-level (the property)
Refused(c, a_, d) == d.n \in DOMAIN c \/ \E x \in d.a : x \in DOMAIN a_
SetC(c, d) == Put(c, d.n, d.a)
\* the new name stops being an alias of something else (alias table is consulted first); every alias points to it
SetA(a_, d) == [x \in (DOMAIN a_ \ {d.n}) \cup d.a |-> IF x \in d.a THEN d.n ELSE a_[x]]
Target(a_, x) == IF x \in DOMAIN a_ THEN a_[x] ELSE x
RemC(c, t) == [y \in DOMAIN c \ {t} |-> c[y]]
RemA(a_, t) == [y \in {z \in DOMAIN a_ : a_[z] # t} |-> a_[y]]      \* exactly the aliases that point to it
\* ---- I-level (Commands::set / remove as coded): set inserts the name, drops an alias equal to the name,
\* inserts the declared aliases; remove drops every alias whose target is the removed name
ISetA(a_, d) == LET a1 == [x \in DOMAIN a_ \ {d.n} |-> a_[x]] IN [x \in DOMAIN a1 \cup d.a |-> IF x \in d.a THEN d.n ELSE a1[x]]
IRemA(a_, t) == [y \in {z \in DOMAIN a_ : a_[z] # t} |-> a_[y]]
Set(d) == /\ IF Refused(cmds, al, d) THEN UNCHANGED <<cmds, al>> ELSE cmds' = SetC(cmds, d) /\ al' = SetA(al, d)
          /\ IF Refused(icmds, ial, d) THEN UNCHANGED <<icmds, ial>> ELSE icmds' = SetC(icmds, d) /\ ial' = ISetA(ial, d)
          /\ path' = Append(path, [op |-> "set", n |-> d.n, a |-> d.a])
Remove(x) == /\ LET t == Target(al, x) IN IF t \in DOMAIN cmds THEN cmds' = RemC(cmds, t) /\ al' = RemA(al, t) ELSE UNCHANGED <<cmds, al>>
             /\ LET t == Target(ial, x) IN IF t \in DOMAIN icmds THEN icmds' = RemC(icmds, t) /\ ial' = IRemA(ial, t) ELSE UNCHANGED <<icmds, ial>>
             /\ path' = Append(path, [op |-> "remove", n |-> x, a |-> {}])
Next == (\E d \in Descs : Set(d)) \/ (\E x \in Names : Remove(x))
Spec == Init /\ [][Next]_vars
\* ---- observation through the public API: get / exists for every name, get_all_command_names
Resolve(c, a_, x) == LET t == Target(a_, x) IN IF t \in DOMAIN c THEN [n |-> t, a |-> c[t]] ELSE [n |-> "", a |-> {}]
Obs(c, a_) == [names |-> DOMAIN c, get |-> [x \in Names |-> Resolve(c, a_, x)]]
\* ---- invariants
NoDanglingAlias == \A x \in DOMAIN al : al[x] \in DOMAIN cmds
INoDanglingAlias == \A x \in DOMAIN ial : ial[x] \in DOMAIN icmds
ImplRefines == Obs(icmds, ial) = Obs(cmds, al)
\* action properties: a refused registration is a no-op; an accepted one is reachable under name and aliases;
\* a removal removes the command with exactly the aliases that point to it
RefusedSetIsNoOp == [][\A d \in Descs : (path' = Append(path, [op |-> "set", n |-> d.n, a |-> d.a]) /\ Refused(cmds, al, d)) => (cmds' = cmds /\ al' = al)]_vars
AcceptedSetReachable == [][\A d \in Descs : (path' = Append(path, [op |-> "set", n |-> d.n, a |-> d.a]) /\ ~Refused(cmds, al, d)) =>
                              \A x \in {d.n} \cup d.a : Resolve(cmds', al', x) = [n |-> d.n, a |-> d.a]]_vars
RemoveExact == [][\A x \in Names : (path' = Append(path, [op |-> "remove", n |-> x, a |-> {}]) /\ Target(al, x) \in DOMAIN cmds) =>
                     LET t == Target(al, x) IN /\ t \notin DOMAIN cmds'
                                               /\ \A y \in DOMAIN al : (al[y] = t => y \notin DOMAIN al') /\ (al[y] # t => (y \in DOMAIN al' /\ al'[y] = al[y]))
                                               /\ \A c \in DOMAIN cmds \ {t} : c \in DOMAIN cmds' /\ cmds'[c] = cmds[c]]_vars
View == <<cmds, al, icmds, ial>>
\* ---- leg B emission: one line per distinct state: path + expected observation + expected result of every op from here
ExpSet(d) == [op |-> "set", n |-> d.n, a |-> d.a, ok |-> ~Refused(cmds, al, d),
              obs |-> IF Refused(cmds, al, d) THEN Obs(cmds, al) ELSE Obs(SetC(cmds, d), SetA(al, d))]
ExpRem(x) == LET t == Target(al, x) IN [op |-> "remove", n |-> x, a |-> {}, ok |-> t \in DOMAIN cmds,
              obs |-> IF t \in DOMAIN cmds THEN Obs(RemC(cmds, t), RemA(al, t)) ELSE Obs(cmds, al)]
Emit == PrintT(<<"REPLAY", ToJson([path |-> path, obs |-> Obs(cmds, al), next |-> {ExpSet(d) : d \in Descs} \cup {ExpRem(x) : x \in Names}])>>)
=============================================================================
