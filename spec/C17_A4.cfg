CONSTANTS L = 4 EMIT = TRUE
SPECIFICATION Spec
INVARIANT RoundTrips
INVARIANT NormIdempotent
INVARIANT HexDecAgreesWithHex
INVARIANT EmitText
INVARIANT EmitRest
INVARIANT EmitRest2
CHECK_DEADLOCK FALSE
