------------------------------- MODULE C17_Trace -------------------------------
(* Leg C of C17: random Unicode texts (all planes, NUL / control characters, empty), random integers
   and random JSON documents (depth <= 3, width <= 3, keys with dots, spaces, brackets) through the real
   commands.  Text records carry the bytes string_to_bytes produced, the base64 text and both round
   trips: they must equal Codec!Utf8 / Codec!B64 of the text.  Integer records: hex_encode must equal
   Codec!Hex.  JSON records carry the document and json_encode(json_parse --collection) as uniform
   nodes (members sorted by key on both sides): the result must equal Codec!Norm of the document. *)
EXTENDS Codec, Json, IOUtils
Rec == ndJsonDeserialize(IOEnv.TRACE)
VARIABLE l
Check(k, r) ==
  CASE r.kind = "text" -> IF r.err = "" /\ r.bytes = Utf8(r.text) /\ r.b64 = B64(Utf8(r.text)) /\ r.back = r.text /\ r.back2 = r.text THEN TRUE
                          ELSE PrintT(<<"VIOL", ToJson([rec |-> k, kind |-> "text", text |-> r.text, err |-> r.err, bytes |-> r.bytes, expbytes |-> Utf8(r.text), b64 |-> r.b64, expb64 |-> B64(Utf8(r.text))])>>)
    [] r.kind = "hexbig" -> IF r.err = "" /\ r.hex = HexDec(r.n) /\ r.back = r.n THEN TRUE
                         ELSE PrintT(<<"VIOL", ToJson([rec |-> k, kind |-> "hexbig", n |-> r.n, hex |-> r.hex, exphex |-> HexDec(r.n), back |-> r.back, err |-> r.err])>>)
    [] r.kind = "hex" -> IF r.err = "" /\ r.hex = Hex(r.n) /\ r.back = r.n THEN TRUE
                         ELSE PrintT(<<"VIOL", ToJson([rec |-> k, kind |-> "hex", n |-> r.n, hex |-> r.hex, exphex |-> Hex(r.n), err |-> r.err])>>)
    [] r.kind = "json" -> IF r.err = "" /\ r.got = Norm(r.tree) THEN TRUE
                          ELSE PrintT(<<"VIOL", ToJson([rec |-> k, kind |-> "json", tree |-> r.tree, got |-> r.got, exp |-> Norm(r.tree), err |-> r.err])>>)
Init == l = 1
Next == l <= Len(Rec) /\ Check(l, Rec[l]) /\ l' = l + 1
Spec == Init /\ [][Next]_l
Done == PrintT(<<"TRACE_DONE", TLCGet("stats").diameter - 1>>)
=============================================================================
