CONSTANTS Cap = 30 Bounded = TRUE MaxLines = 2 MaxHalt = 0 EMIT = TRUE Rich = TRUE
SPECIFICATION Spec
INVARIANT TypeOK
INVARIANT FailedNamesLine
INVARIANT NoStartAfterHalt
INVARIANT Emit
CHECK_DEADLOCK FALSE
