------------------------------- MODULE VarScope -------------------------------
(* C11.  R-level: the variable commands and the scope stack are a map (vars) and a stack of saved
   maps (stack).  An operation is [cmd, args, tgt]: the script line "tgt = cmd args" (tgt = "" when the
   line has no output variable of interest).  Eff gives the new map, the new stack and the command's
   documented output as a descriptor: none / star = success class only (the help says None, the code
   returns true) / names / lit / val.  HasPrefix is a parameter so that the same operators serve the bounded
   model (names as strings, table) and trace validation (names as code-point sequences). *)
EXTENDS Naturals, Sequences, TLC, FiniteSets
CONSTANT HasPrefix(_, _)
Put(f, k, v) == [x \in DOMAIN f \cup {k} |-> IF x = k THEN v ELSE f[x]]
Del(f, K) == [x \in DOMAIN f \ K |-> f[x]]
Restrict(f, K) == [x \in DOMAIN f \cap K |-> f[x]]
Overlay(base, top) == [x \in DOMAIN base \cup DOMAIN top |-> IF x \in DOMAIN top THEN top[x] ELSE base[x]]
SeqSet(s) == {s[i] : i \in 1..Len(s)}
CopySet(args) == IF args = <<>> THEN {} ELSE {args[i] : i \in 2..Len(args)}      \* args = <<"--copy", n1, n2, ...>>
\* output descriptor: k = "none" | "star" (success class only) | "names" (array of DOMAIN vars) | "lit" (v = "true"/"false") | "val" (v = the text)
O(k, v) == [k |-> k, v |-> v]
R(ok, vs, st, out) == [ok |-> ok, vars |-> vs, stack |-> st, out |-> out, dc |-> {}]
Eff(op, vs, st) ==
  CASE op.cmd = "set" -> IF op.args = <<>> THEN R(TRUE, vs, st, O("none", "")) ELSE R(TRUE, vs, st, O("val", op.args[1]))
    [] op.cmd = "unset" -> R(TRUE, Del(vs, SeqSet(op.args)), st, O("none", ""))
    [] op.cmd = "set_by_name" -> IF Len(op.args) = 2 THEN R(TRUE, Put(vs, op.args[1], op.args[2]), st, O("val", op.args[2]))
                                 ELSE R(TRUE, Del(vs, {op.args[1]}), st, O("none", ""))
    [] op.cmd = "get_by_name" -> R(TRUE, vs, st, IF op.args[1] \in DOMAIN vs THEN O("val", vs[op.args[1]]) ELSE O("none", ""))
    [] op.cmd = "is_defined" -> R(TRUE, vs, st, O("lit", IF op.args[1] \in DOMAIN vs THEN "true" ELSE "false"))
    [] op.cmd = "get_all_var_names" -> R(TRUE, vs, st, O("names", ""))
    [] op.cmd = "unset_all_vars" -> IF op.args = <<>> THEN R(TRUE, <<>>, st, O("none", ""))
                                    ELSE R(TRUE, Del(vs, {x \in DOMAIN vs : HasPrefix(x, op.args[2])}), st, O("none", ""))
    [] op.cmd = "clear_scope" -> R(TRUE, Del(vs, {x \in DOMAIN vs : HasPrefix(x, op.args[1] \o op.args[2])}), st, O("none", ""))   \* args = <<name, "::">>
    [] op.cmd = "scope_push_stack" -> R(TRUE, Restrict(vs, CopySet(op.args)), Append(st, vs), O("star", ""))
    [] op.cmd = "scope_pop_stack" ->
         IF st = <<>> THEN R(FALSE, vs, st, O("lit", "false"))
         ELSE [ok |-> TRUE, vars |-> Overlay(st[Len(st)], Restrict(vs, CopySet(op.args))), stack |-> SubSeq(st, 1, Len(st) - 1), out |-> O("star", ""),
               dc |-> CopySet(op.args) \ DOMAIN vs]       \* names undefined when copied on pop: only "no failure" is constrained
=============================================================================
