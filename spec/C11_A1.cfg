CONSTANTS MaxDepth = 1 Wide = TRUE
CONSTANT HasPrefix <- MCHasPrefix
SPECIFICATION Spec
VIEW View
INVARIANT PushPopId
INVARIANT PopEmptyIsNoOp
INVARIANT PushKeepsOnlyDefinedCopies
INVARIANT Emit
CHECK_DEADLOCK FALSE
