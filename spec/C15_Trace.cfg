CONSTANTS
  Names = {}
  Descs = {}
SPECIFICATION TSpec
POSTCONDITION Done
CHECK_DEADLOCK FALSE
