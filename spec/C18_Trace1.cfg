CONSTANT Pool = 1
SPECIFICATION Spec
POSTCONDITION Done
CHECK_DEADLOCK FALSE
