------------------------------- MODULE C04_MC -------------------------------
EXTENDS Flow, Json
CONSTANT EMIT
\* one JSON line per complete program (the state right after Start) with the reference result
EmitProg == (EMIT /\ phase = "run" /\ steps = 0) =>
   LET x == Ref IN PrintT(<<"PROG", ToJson([prog |-> prog, fuelout |-> (x.fuel = 0), trace |-> x.trace, c |-> x.c, i |-> x.i])>>)
=============================================================================
