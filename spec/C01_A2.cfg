CONSTANTS AL = 1 NA = 3 WIDE = FALSE EMIT = FALSE
SPECIFICATION Spec
INVARIANT TypeOK
INVARIANT RoundTrip
INVARIANT InScript
CHECK_DEADLOCK FALSE
