CONSTANTS AL = 2
SPECIFICATION Spec
INVARIANT Rejected
INVARIANT Emit
CHECK_DEADLOCK FALSE
