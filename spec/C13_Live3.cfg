CONSTANTS Cap = 3 Bounded = FALSE MaxLines = 3
SPECIFICATION Spec
INVARIANT AtMostOneAfterAsyncHalt
PROPERTY HaltedRunTerminates
CHECK_DEADLOCK FALSE
