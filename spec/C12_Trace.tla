------------------------------- MODULE C12_Trace -------------------------------
(* Leg C of C12: long random histories of collection commands on the real SDK (up to 8 live handles
   of mixed kinds, Unicode / empty / handle-looking values, indexes inside / at / beyond the end and
   non-numeric, use after release, kind confusion).  After every operation the harness re-reads every
   collection ever created through the public commands; the record carries the output and the whole
   table.  Each step must equal Handles!Eff of the previous observed table.  Arrays made from a set
   or from map keys may come in any order: the content is compared as a permutation. *)
EXTENDS Handles, Json, IOUtils
Rec == ndJsonDeserialize(IOEnv.TRACE)
VARIABLES st, l
MapOf(kv) == [k \in {kv[i][1] : i \in 1..Len(kv)} |-> kv[CHOOSE i \in 1..Len(kv) : kv[i][1] = k][2]]
CollOf(c) == CASE c.k = "list" -> [k |-> "list", v |-> c.v] [] c.k = "map" -> [k |-> "map", v |-> MapOf(c.v)] [] c.k = "set" -> [k |-> "set", v |-> {c.v[i] : i \in 1..Len(c.v)}]
TableOf(r) == [hs |-> [id \in {r.table[i].id : i \in 1..Len(r.table)} |-> CollOf(r.table[CHOOSE i \in 1..Len(r.table) : r.table[i].id = id])], next |-> r.next]
IsPerm(a, b) == Len(a) = Len(b) /\ \A x \in {a[i] : i \in 1..Len(a)} \cup {b[i] : i \in 1..Len(b)} :
                   Cardinality({i \in 1..Len(a) : a[i] = x}) = Cardinality({i \in 1..Len(b) : b[i] = x})
\* equality of tables, the fresh array of an any-order operation compared as a permutation
SameTable(e, o, anyOrder) ==
   /\ e.next = o.next /\ DOMAIN e.hs = DOMAIN o.hs
   /\ \A id \in DOMAIN e.hs : IF anyOrder /\ id = e.next THEN o.hs[id].k = "list" /\ IsPerm(e.hs[id].v, o.hs[id].v) ELSE e.hs[id] = o.hs[id]
OutOK(eo, r) == CASE eo.k = "lit" -> (r.has_out /\ r.out = eo.v) \/ (eo.v = "" /\ ~r.has_out)
                  [] eo.k = "none" -> ~r.has_out
                  [] eo.k = "class" -> ~(r.has_out /\ r.out = "false")
                  [] eo.k = "new" -> r.created
Step == /\ l <= Len(Rec) /\ l' = l + 1
        /\ LET r == Rec[l] IN
           IF r.ev = "reset" THEN st' = [hs |-> <<>>, next |-> 0]
           ELSE LET op == [cmd |-> r.cmd, h |-> r.h, args |-> r.args]
                    e == Eff(op, st)
                    obs == TableOf(r)
                    good == r.err = "" /\ OutOK(e.out, r) /\ SameTable(e.st, obs, r.cmd \in {"map_keys", "set_to_array"} /\ e.out.k = "new") /\ r.distinct
                IN /\ st' = obs
                   /\ IF good THEN TRUE
                      ELSE PrintT(<<"VIOL", ToJson([rec |-> l, hist |-> r.hist, cmd |-> r.cmd, h |-> r.h, args |-> r.args, err |-> r.err, out |-> r.out, has_out |-> r.has_out,
                                                    expout |-> e.out, outok |-> OutOK(e.out, r), tableok |-> SameTable(e.st, obs, r.cmd \in {"map_keys", "set_to_array"} /\ e.out.k = "new"), distinct |-> r.distinct])>>)
Init == st = [hs |-> <<>>, next |-> 0] /\ l = 1
Spec == Init /\ [][Step]_<<st, l>>
Done == PrintT(<<"TRACE_DONE", TLCGet("stats").diameter - 1>>)
=============================================================================
