CONSTANT Pool = 2
INIT Init
NEXT Next
