------------------------------- MODULE Includes -------------------------------
(* C14.  R-level of !include_files: a script that includes files behaves like the script obtained by
   pasting them in place, and every instruction keeps the file and line it came from.
   A tree is a function file -> sequence of lines; a line is
     [k |-> "plain"]                      an ordinary instruction (its identity is its position)
     [k |-> "inc", to |-> <<f1, ...>>]    !include_files f1 ...   (files by index; how the path is written -
                                          relative to the including file's directory, with .., or absolute -
                                          is a rendering choice of the harness: resolution must not depend on it)
     [k |-> "bad"]                        a malformed line (unterminated quote)
   File 0 is a file that does not exist.
   Flatten(t, f) = the instruction list parse_file must return: for each line its own entry (file, line),
   an include directive being kept as a (non-actionable) instruction followed by the flattened listed
   files in order; or the first error in that order: [err, file, line]. *)
EXTENDS Naturals, Sequences, TLC, FiniteSets
Ent(f, ln, k) == [file |-> f, line |-> ln, k |-> k]
IsErr(x) == "err" \in DOMAIN x
\* depth-bounded recursion (the trees of the models are acyclic by construction: includes go to higher indices)
RECURSIVE FlatFile(_,_,_,_), FlatList(_,_,_,_,_)
\* flatten lines j.. of file f, given the accumulated result acc
FlatFile(t, f, j, acc) ==
  IF IsErr(acc) THEN acc
  ELSE IF f \notin DOMAIN t THEN [err |-> "missing", file |-> f, line |-> 0]
  ELSE IF j > Len(t[f]) THEN acc
  ELSE LET ln == t[f][j] IN
    CASE ln.k = "plain" -> FlatFile(t, f, j+1, [ok |-> Append(acc.ok, Ent(f, j, "plain"))])
      [] ln.k = "bad"   -> [err |-> "malformed", file |-> f, line |-> j]
      [] ln.k = "inc"   -> FlatFile(t, f, j+1, FlatList(t, ln.to, 1, [ok |-> Append(acc.ok, Ent(f, j, "inc"))], f))
FlatList(t, fs, k, acc, from) ==
  IF IsErr(acc) \/ k > Len(fs) THEN acc
  ELSE FlatList(t, fs, k+1, FlatFile(t, fs[k], 1, acc), from)
Flatten(t, f) == FlatFile(t, f, 1, [ok |-> <<>>])
\* textual pasting: the plain lines in execution order (what the pasted script would execute)
Actionable(r) == IF IsErr(r) THEN <<>> ELSE SelectSeq(r.ok, LAMBDA e : e.k = "plain")
RECURSIVE PasteFile(_,_,_)
PasteFile(t, f, j) ==
  IF f \notin DOMAIN t \/ j > Len(t[f]) THEN <<>>
  ELSE LET ln == t[f][j] IN
    (CASE ln.k = "plain" -> <<Ent(f, j, "plain")>>
       [] ln.k = "bad" -> <<>>
       [] ln.k = "inc" -> LET RECURSIVE All(_) 
                              All(k) == IF k > Len(ln.to) THEN <<>> ELSE PasteFile(t, ln.to[k], 1) \o All(k+1)
                          IN All(1)) \o PasteFile(t, f, j+1)
=============================================================================
