CONSTANTS D = 12 NSeq = 300
SPECIFICATION Spec
INVARIANT Emit
CHECK_DEADLOCK FALSE
