CONSTANTS MaxLines = 5 MaxDepth = 3 C0 = 2 Budget = 60 Spell = "all" RichCond = TRUE EMIT = TRUE
SPECIFICATION Spec
INVARIANT Refines
INVARIANT ScanSound
INVARIANT EmitProg
CHECK_DEADLOCK FALSE
