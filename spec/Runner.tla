------------------------------- MODULE Runner -------------------------------
(* C03 / C13.  R-level abstract machine of the documented runner contract (it is also the shape of
   duckscript/src/runner.rs::run_instructions: Poll the halt flag, fetch, execute, react to the
   command result, dispatch on_error).  Lines are 0-based; the source line of line i is i+1.
   A program line is [label, out, cmd, res, rep]: cmd in {"", "res", "nosuch"}; res = the scripted
   results of a "res" line, consumed one per visit (exhausted => Continue(none)); rep = TRUE makes the
   first result apply at every visit (non-terminating programs for the halt property).
   A result is [k, hasv, v, l, n]: k in cont | gotoL | gotoN | exit | err | crash.
   haltAt = k > 0: the k-th command invocation (scripted command or on_error) raises the halt flag
   while it runs; the environment may raise it at any time (EnvHalt, used for liveness).
   The machine is deterministic once the program is fixed, so the history variable calls
   (every invocation with the arguments it saw) does not multiply states; late counts the top-level
   instructions begun while the flag was already up (C13 says: at most the one in flight). *)
EXTENDS Naturals, Sequences, TLC, FiniteSets
CONSTANTS Cap,          \* bound on command invocations per run (the harness command exits the run beyond it)
          Bounded       \* TRUE: runs are cut at Cap and calls is kept; FALSE: counters saturate, no history (liveness runs)
VARIABLES prog, onerr, src, haltAt, pc, vars, visits, mode, errline, msg, total, halt, calls, late
rvars == <<prog, onerr, src, haltAt, pc, vars, visits, mode, errline, msg, total, halt, calls, late>>
n == Len(prog)
Ln(i) == prog[i+1]
Put(f, k, v) == [x \in DOMAIN f \cup {k} |-> IF x = k THEN v ELSE f[x]]
Del(f, k) == [x \in DOMAIN f \ {k} |-> f[x]]
Get(f, k) == IF k \in DOMAIN f THEN f[k] ELSE ""
\* update_output: a value-less result deletes the output variable
UpdOut(vs, out, hasv, v) == IF out = "" THEN vs ELSE IF hasv THEN Put(vs, out, v) ELSE Del(vs, out)
\* label table built before execution; later duplicates win
HasLabel(lb) == \E i \in 0..(n-1) : Ln(i).label = lb
LabelLine(lb) == CHOOSE i \in 0..(n-1) : Ln(i).label = lb /\ \A j \in 0..(n-1) : Ln(j).label = lb => j <= i
Visit(i) == IF i \in DOMAIN visits THEN visits[i] ELSE 0
ContNone == [k |-> "cont", hasv |-> FALSE, v |-> "", l |-> "", n |-> 0]
ResultOf(i) == IF Bounded /\ total + 1 > Cap THEN [k |-> "exit", hasv |-> FALSE, v |-> "", l |-> "", n |-> 0]
               ELSE IF Ln(i).rep THEN Ln(i).res[1]
               ELSE LET k == Visit(i) + 1 IN IF k <= Len(Ln(i).res) THEN Ln(i).res[k] ELSE ContNone
IsInt(v) == v \in {"0", "3", "-2"}         \* the value pool: "0" "3" "-2" parse as integers, "val" does not
Finish(ok, line, m) == mode' = (IF ok THEN "ok" ELSE "err") /\ errline' = line /\ msg' = m
Fixed == UNCHANGED <<prog, onerr, src, haltAt>>
Tick == IF total > Cap THEN total ELSE total + 1
Late == late' = (IF halt /\ late < 3 THEN late + 1 ELSE late)
HaltEffect == halt' = (halt \/ (haltAt > 0 /\ total + 1 = haltAt))      \* the invocation in flight raises the flag

\* ---- the loop
Poll == /\ mode = "poll" /\ Fixed /\ UNCHANGED <<pc, vars, visits, total, halt, calls, late>>
        /\ IF halt THEN Finish(TRUE, 0, "halted") ELSE mode' = "exec" /\ UNCHANGED <<errline, msg>>
PastEnd == /\ mode = "exec" /\ pc >= n /\ Fixed /\ Finish(TRUE, 0, "") /\ UNCHANGED <<pc, vars, visits, total, halt, calls, late>>
NoCommand == /\ mode = "exec" /\ pc < n /\ Ln(pc).cmd = "" /\ Fixed
             /\ vars' = UpdOut(vars, Ln(pc).out, FALSE, "") /\ pc' = pc + 1 /\ mode' = "poll" /\ Late
             /\ UNCHANGED <<visits, errline, msg, total, halt, calls>>
UnknownCommand == /\ mode = "exec" /\ pc < n /\ Ln(pc).cmd = "nosuch" /\ Fixed
                  /\ Finish(FALSE, pc + 1, "unknown-command") /\ Late /\ UNCHANGED <<pc, vars, visits, total, halt, calls>>
Exec == /\ mode = "exec" /\ pc < n /\ Ln(pc).cmd = "res" /\ Fixed /\ Late
        /\ LET r == ResultOf(pc)  out == Ln(pc).out IN
           /\ visits' = (IF Ln(pc).rep THEN visits ELSE Put(visits, pc, IF Visit(pc) > Len(Ln(pc).res) THEN Visit(pc) ELSE Visit(pc) + 1))
           /\ total' = Tick /\ HaltEffect
           /\ calls' = (IF Bounded THEN Append(calls, [line |-> pc, args |-> <<Get(vars, "x"), Get(vars, "y")>>]) ELSE calls)
           /\ CASE r.k = "cont" -> vars' = UpdOut(vars, out, r.hasv, r.v) /\ pc' = pc + 1 /\ mode' = "poll" /\ UNCHANGED <<errline, msg>>
                [] r.k = "gotoN" -> vars' = UpdOut(vars, out, r.hasv, r.v) /\ pc' = r.n /\ mode' = "poll" /\ UNCHANGED <<errline, msg>>
                [] r.k = "gotoL" -> /\ vars' = UpdOut(vars, out, r.hasv, r.v)
                                    /\ IF HasLabel(r.l) THEN pc' = LabelLine(r.l) /\ mode' = "poll" /\ UNCHANGED <<errline, msg>>
                                       ELSE pc' = pc /\ Finish(FALSE, pc + 1, "unknown-label")
                [] r.k = "exit" -> /\ vars' = UpdOut(vars, out, r.hasv, r.v) /\ pc' = pc
                                   /\ IF r.hasv /\ IsInt(r.v) /\ r.v # "0" THEN Finish(FALSE, pc + 1, "exit-code") ELSE Finish(TRUE, 0, "")
                [] r.k = "crash" -> UNCHANGED <<vars, pc>> /\ Finish(FALSE, pc + 1, r.v)
                [] r.k = "err" -> /\ vars' = UpdOut(vars, out, TRUE, "false")
                                  /\ IF onerr = "absent" THEN pc' = pc + 1 /\ mode' = "poll" /\ UNCHANGED <<errline, msg>>
                                     ELSE pc' = pc /\ mode' = "onerr" /\ msg' = r.v /\ errline' = pc + 1
\* on_error receives (message, source line, source file) of the failing instruction; its own output is ignored
OnErrorDispatch == /\ mode = "onerr" /\ Fixed /\ UNCHANGED <<vars, visits, late>>
                   /\ total' = Tick /\ HaltEffect
                   /\ calls' = (IF Bounded THEN Append(calls, [line |-> 0 - 1, args |-> <<msg, ToString(errline), src>>]) ELSE calls)
                   /\ CASE onerr = "cont" -> mode' = "poll" /\ pc' = pc + 1 /\ errline' = 0 /\ msg' = ""
                        [] onerr = "exit" -> pc' = pc /\ Finish(FALSE, errline, "on-error-exit")
                        [] onerr = "crash" -> pc' = pc /\ Finish(FALSE, errline, "oe-crash")
\* the embedder (another thread) raises the flag at an arbitrary moment
EnvHalt == /\ mode \in {"poll", "exec", "onerr"} /\ ~halt /\ halt' = TRUE
           /\ UNCHANGED <<prog, onerr, src, haltAt, pc, vars, visits, mode, errline, msg, total, calls, late>>
RunStep == Poll \/ PastEnd \/ NoCommand \/ UnknownCommand \/ Exec \/ OnErrorDispatch
Done == mode \in {"ok", "err"}

\* ---- properties of the machine itself
\* a failed run names the source line of the instruction that was executing
FailedNamesLine == mode = "err" => errline = pc + 1
\* C13: once the flag is up, at most the instruction whose poll preceded the store may still start:
\* none when the flag is raised by the command in flight (haltAt), one when it is raised
\* asynchronously between a poll and the fetch (EnvHalt)
NoStartAfterHalt == late = 0
AtMostOneAfterAsyncHalt == late <= 1
=============================================================================
