------------------------------- MODULE Repo_Trace -------------------------------
(* Growth beyond the listed properties: every command invocation made while the repository's own
   test scripts (/repo/test/**/*.ds, /repo/examples) run on the real SDK is logged by a transparent proxy
   around every registered command (name, bound arguments, result kind, output) and validated here:
   (1) every invocation returns one of the documented result kinds (the C07 oracle on real workloads);
   (2) invocations of commands that have a specification - the text / comparison commands of Strings,
       hex of Codec, value conditions of Condition through `not`, `set` with one argument - must produce
       exactly the specified output: an oracle much stronger than the scripts' own assertions.
   modelled / total is reported as the coverage number to push up. *)
EXTENDS Naturals, Sequences, TLC, FiniteSets, Json, IOUtils
S == INSTANCE Strings WITH Unit <- "byte"
K == INSTANCE Codec
C == INSTANCE Condition
Rec == ndJsonDeserialize(IOEnv.TRACE)
VARIABLE l
ResultKinds == {"continue", "goto", "error", "crash", "exit"}
Ascii(s) == \A i \in 1..Len(s) : s[i] < 128
Digits(s) == s # <<>> /\ Len(s) <= 9 /\ \A i \in 1..Len(s) : s[i] >= 48 /\ s[i] <= 57
RECURSIVE ToNat(_,_)
ToNat(s, acc) == IF s = <<>> THEN acc ELSE ToNat(Tail(s), acc * 10 + (s[1] - 48))
Int(s) == IF s # <<>> /\ s[1] = 45 THEN [ok |-> Digits(Tail(s)), neg |-> TRUE, n |-> IF Digits(Tail(s)) THEN ToNat(Tail(s), 0) ELSE 0]
          ELSE [ok |-> Digits(s), neg |-> FALSE, n |-> IF Digits(s) THEN ToNat(s, 0) ELSE 0]
Less(a, b) == IF a.neg /\ ~b.neg THEN a.n # 0 \/ b.n # 0 ELSE IF ~a.neg /\ b.neg THEN FALSE ELSE IF a.neg THEN a.n > b.n ELSE a.n < b.n
None == [k |-> "none"]
Kw(x) == CASE x = <<97,110,100>> -> "and" [] x = <<111,114>> -> "or" [] x = <<40>> -> "(" [] x = <<41>> -> ")" [] OTHER -> "atom"
Toks(a) == [i \in 1..Len(a) |-> [k |-> Kw(a[i]), v |-> IF Kw(a[i]) = "atom" THEN a[i] ELSE <<>>]]
\* the specified output of a modelled invocation, or [k |-> "unmodelled"]
Expected(r) == LET a == r.args  n == Len(a) IN
   CASE r.cmd = "std::string::Length" /\ n >= 1 -> S!Length(a[1])
     [] r.cmd = "std::string::IsEmpty" /\ n >= 1 -> S!IsEmpty(a[1])
     [] r.cmd = "std::string::IndexOf" /\ n >= 2 /\ a[2] # <<>> -> S!IndexOf(a[1], a[2])
     [] r.cmd = "std::string::LastIndexOf" /\ n >= 2 /\ a[2] # <<>> -> S!LastIndexOf(a[1], a[2])
     [] r.cmd = "std::string::Contains" /\ n >= 2 -> S!Contains(a[1], a[2])
     [] r.cmd = "std::string::StartsWith" /\ n >= 2 -> S!StartsWith(a[1], a[2])
     [] r.cmd = "std::string::EndsWith" /\ n >= 2 -> S!EndsWith(a[1], a[2])
     [] r.cmd = "std::string::Equals" /\ n >= 2 -> S!Equals(a[1], a[2])
     [] r.cmd = "std::string::Replace" /\ n >= 3 /\ a[2] # <<>> -> S!Val(S!Replace(a[1], a[2], a[3]))
     [] r.cmd = "std::string::Trim" /\ n >= 1 -> S!Val(S!TrimR(S!TrimL(a[1])))
     [] r.cmd = "std::string::TrimStart" /\ n >= 1 -> S!Val(S!TrimL(a[1]))
     [] r.cmd = "std::string::TrimEnd" /\ n >= 1 -> S!Val(S!TrimR(a[1]))
     [] r.cmd = "std::string::Uppercase" /\ n >= 1 /\ Ascii(a[1]) -> S!Val(S!Upper(a[1]))
     [] r.cmd = "std::string::Lowercase" /\ n >= 1 /\ Ascii(a[1]) -> S!Val(S!Lower(a[1]))
     [] r.cmd = "std::string::SubString" /\ n = 1 -> S!Val(a[1])
     [] r.cmd = "std::string::SubString" /\ n = 2 /\ Int(a[2]).ok -> LET x == Int(a[2]) IN S!Substring1(a[1], IF x.neg THEN 0 - x.n ELSE x.n)
     [] r.cmd = "std::string::SubString" /\ n = 3 /\ Int(a[2]).ok /\ Int(a[3]).ok -> LET x == Int(a[2])  y == Int(a[3]) IN S!Substring2(a[1], IF x.neg THEN 0 - x.n ELSE x.n, IF y.neg THEN 0 - y.n ELSE y.n)
     [] r.cmd = "std::math::LessThan" /\ n = 2 /\ Int(a[1]).ok /\ Int(a[2]).ok -> S!Bool(Less(Int(a[1]), Int(a[2])))
     [] r.cmd = "std::math::GreaterThan" /\ n = 2 /\ Int(a[1]).ok /\ Int(a[2]).ok -> S!Bool(Less(Int(a[2]), Int(a[1])))
     [] r.cmd = "std::math::HexEncode" /\ n >= 1 /\ Digits(a[1]) -> S!Val(K!Hex(ToNat(a[1], 0)))
     [] r.cmd = "std::var::Set" /\ n = 1 -> S!Val(a[1])
     [] r.cmd = "std::var::Set" /\ n = 0 -> None
     [] r.cmd = "std::Not" /\ n >= 1 /\ ~r.first_is_cmd /\ C!WF(Toks(a)) -> S!Bool(~C!RefEval(Toks(a)))
     [] r.cmd = "std::test::AssertEquals" /\ n >= 2 -> IF a[1] = a[2] THEN S!Bool(TRUE) ELSE [k |-> "crash"]
     [] r.cmd = "std::test::Assert" /\ n >= 1 /\ ~r.first_is_cmd /\ C!WF(<<Toks(a)[1]>>) /\ Toks(a)[1].k = "atom" /\ n <= 2 -> IF C!IsTrue(a[1]) THEN S!Bool(TRUE) ELSE [k |-> "crash"]
     [] r.cmd = "std::test::AssertFalse" /\ n >= 1 /\ ~r.first_is_cmd /\ Toks(a)[1].k = "atom" /\ n <= 2 -> IF ~C!IsTrue(a[1]) THEN S!Bool(TRUE) ELSE [k |-> "crash"]
     [] r.cmd = "std::var::IsDefined" /\ n >= 1 -> S!Bool(r.arg0_defined)
     [] r.cmd = "std::math::Calc" /\ n = 3 /\ Digits(a[1]) /\ Digits(a[3]) /\ Len(a[1]) <= 4 /\ Len(a[3]) <= 4 /\ a[2] \in {<<43>>, <<42>>} ->
            S!Num(IF a[2] = <<43>> THEN ToNat(a[1], 0) + ToNat(a[3], 0) ELSE ToNat(a[1], 0) * ToNat(a[3], 0))
     [] OTHER -> [k |-> "unmodelled"]
RECURSIVE NDigits(_)
NDigits(x) == IF x < 10 THEN <<48 + x>> ELSE NDigits(x \div 10) \o <<48 + (x % 10)>>
T == <<116,114,117,101>>  F == <<102,97,108,115,101>>
Matches(e, r) == CASE e.k = "any" -> TRUE
   [] e.k = "val" -> (r.has_out /\ r.out = e.v) \/ (e.v = <<>> /\ ~r.has_out)
   [] e.k = "none" -> ~r.has_out /\ r.kind = "continue"
   [] e.k = "err" -> r.kind = "error"
   [] e.k = "crash" -> r.kind = "crash"
   [] e.k = "num" -> r.has_out /\ r.out = NDigits(e.n)
   [] e.k = "bool" -> r.has_out /\ r.out = (IF e.b THEN T ELSE F)
Check(k, r) ==
   IF r.ev = "file" THEN TRUE
   ELSE LET e == Expected(r) IN
     /\ IF r.kind \in ResultKinds THEN TRUE ELSE PrintT(<<"VIOL", ToJson([rec |-> k, why |-> "no documented result kind", cmd |-> r.cmd, kind |-> r.kind, file |-> r.file])>>)
     /\ IF e.k = "unmodelled" THEN TRUE
        ELSE /\ PrintT(<<"MODELLED", r.cmd>>)
             /\ IF Matches(e, r) THEN TRUE ELSE PrintT(<<"VIOL", ToJson([rec |-> k, why |-> "output differs from the specification", cmd |-> r.cmd, args |-> r.args, out |-> r.out, has_out |-> r.has_out, kind |-> r.kind, exp |-> e, file |-> r.file])>>)
Init == l = 1
Next == l <= Len(Rec) /\ Check(l, Rec[l]) /\ l' = l + 1
Spec == Init /\ [][Next]_l
Done == PrintT(<<"TRACE_DONE", TLCGet("stats").diameter - 1>>)
=============================================================================
