CONSTANTS Cap = 3 Bounded = FALSE MaxLines = 1
SPECIFICATION Spec
PROPERTY EveryRunTerminates
CHECK_DEADLOCK FALSE
