------------------------------- MODULE Condition -------------------------------
(* C06.  Tokens are records [k, v]: k in {"and","or","(",")","atom"}, v = the atom's text as code points.
   R-level: truthiness rule + and-of-ors over the grammar  Stmt ::= Atom (("and"|"or") Atom)*,
            Atom ::= value | "(" Stmt? ")"  (an empty group is falsy).
   I-level: duckscript_sdk/src/utils/condition.rs::eval_condition_for_slice, the single pass with
            searching_block_end, start_block, counter, total_evaluated, partial_evaluated, found_token. *)
EXTENDS Naturals, Sequences, TLC, FiniteSets
Lower(c) == IF c >= 65 /\ c <= 90 THEN c + 32 ELSE c
LowerS(s) == [i \in 1..Len(s) |-> Lower(s[i])]
\* falsy exactly when absent, empty, "0", "false" or "no", case-insensitively
FalsyTexts == {<<>>, <<48>>, <<102,97,108,115,101>>, <<110,111>>}
IsTrue(v) == LowerS(v) \notin FalsyTexts
IsTrueOpt(o) == o # <<>> /\ IsTrue(o[1])            \* o = <<>> (absent) or <<text>>
Tok(k, v) == [k |-> k, v |-> v]
\* ---------- R-level
RECURSIVE MatchClose(_,_,_)
MatchClose(ts, i, depth) == IF i > Len(ts) THEN 0
   ELSE IF ts[i].k = "(" THEN MatchClose(ts, i+1, depth+1)
   ELSE IF ts[i].k = ")" THEN (IF depth = 1 THEN i ELSE MatchClose(ts, i+1, depth-1))
   ELSE MatchClose(ts, i+1, depth)
RECURSIVE Items(_,_)
Items(ts, i) == IF i > Len(ts) THEN <<>>
   ELSE IF ts[i].k = "atom" THEN <<[k |-> "atom", s |-> <<ts[i]>>]>> \o Items(ts, i+1)
   ELSE IF ts[i].k \in {"and","or"} THEN <<[k |-> "op", s |-> <<ts[i]>>]>> \o Items(ts, i+1)
   ELSE IF ts[i].k = "(" THEN LET j == MatchClose(ts, i, 0) IN
        IF j = 0 THEN <<[k |-> "bad", s |-> <<>>]>> ELSE <<[k |-> "group", s |-> SubSeq(ts, i+1, j-1)]>> \o Items(ts, j+1)
   ELSE <<[k |-> "bad", s |-> <<>>]>>
Alternates(it) == /\ Len(it) % 2 = 1
                  /\ \A i \in 1..Len(it) : IF i % 2 = 1 THEN it[i].k \in {"atom","group"} ELSE it[i].k = "op"
RECURSIVE WF(_), RefEval(_)
WF(ts) == LET it == Items(ts, 1) IN
          /\ Alternates(it)
          /\ \A i \in 1..Len(it) : it[i].k = "group" => (it[i].s = <<>> \/ WF(it[i].s))
AtomVal(a) == IF a.k = "atom" THEN IsTrue(a.s[1].v) ELSE (IF a.s = <<>> THEN FALSE ELSE RefEval(a.s))
RECURSIVE Fold(_,_,_,_)
\* and-of-ors: cur = the OR of the current disjunction, acc = the AND of the finished ones
Fold(it, i, cur, acc) == IF i > Len(it) THEN acc /\ cur
   ELSE IF it[i].k = "op" THEN (IF it[i].s[1].k = "and" THEN Fold(it, i+1, FALSE, acc /\ cur) ELSE Fold(it, i+1, cur, acc))
   ELSE Fold(it, i+1, cur \/ AtomVal(it[i]), acc)
RefEval(ts) == IF ts = <<>> THEN FALSE ELSE Fold(Items(ts, 1), 1, FALSE, TRUE)
\* ---------- I-level: result in {"T","F","E"}
None == "none"
B(x) == IF x THEN "T" ELSE "F"
UnwrapOr(x, d) == IF x = None THEN d ELSE (x = "T")
RECURSIVE Impl(_)
RECURSIVE Scan(_,_,_,_,_,_,_,_)
Scan(ts, i, searching, startB, counter, total, partial, found) ==
  IF i > Len(ts) THEN
     IF searching THEN "E"
     ELSE IF total = None /\ partial = None THEN "F"
     ELSE B(UnwrapOr(partial, TRUE) /\ UnwrapOr(total, TRUE))
  ELSE LET a == ts[i] IN
   IF a.k = "(" THEN Scan(ts, i+1, TRUE, IF counter = 0 THEN i+1 ELSE startB, counter+1, total, partial, found)
   ELSE IF a.k = ")" THEN
      IF counter = 0 THEN "E"
      ELSE IF counter - 1 = 0 THEN
         LET sub == Impl(SubSeq(ts, startB, i-1)) IN
         IF sub = "E" THEN "E"
         ELSE LET ev == (sub = "T") IN
           CASE found = "None" -> Scan(ts, i+1, FALSE, 0, 0, total, B(ev), "Value")
             [] found = "And"  -> Scan(ts, i+1, FALSE, 0, 0, total, B(ev), "Value")
             [] found = "Or"   -> Scan(ts, i+1, FALSE, 0, 0, total, B(ev \/ UnwrapOr(partial, FALSE)), "Value")
             [] found = "Value" -> "E"
      ELSE Scan(ts, i+1, searching, startB, counter-1, total, partial, found)
   ELSE IF ~searching THEN
      IF a.k = "and" THEN
         IF found = "Value" THEN
            LET t == UnwrapOr(total, TRUE) /\ UnwrapOr(partial, TRUE) IN
            IF ~t THEN "F" ELSE Scan(ts, i+1, searching, startB, counter, B(t), None, "And")
         ELSE "E"
      ELSE IF a.k = "or" THEN
         IF found = "Value" THEN Scan(ts, i+1, searching, startB, counter, total, partial, "Or") ELSE "E"
      ELSE LET ev == IsTrue(a.v) IN
           CASE found = "None" -> Scan(ts, i+1, searching, startB, counter, total, B(ev), "Value")
             [] found = "And"  -> Scan(ts, i+1, searching, startB, counter, total, B(ev), "Value")
             [] found = "Or"   -> Scan(ts, i+1, searching, startB, counter, total, B(ev \/ UnwrapOr(partial, FALSE)), "Value")
             [] found = "Value" -> "E"
   ELSE Scan(ts, i+1, searching, startB, counter, total, partial, found)
Impl(ts) == IF ts = <<>> THEN "F" ELSE Scan(ts, 1, FALSE, 0, 0, None, None, "None")
=============================================================================
