------------------------------- MODULE C09_MC -------------------------------
(* Leg A of C09: for every argument value over the class alphabet up to length VL (one state per
   value) - alone and next to a second argument - the I-level wrapper either is the identity or the
   value falls in a class of the recorded finding.  Each state prints the value with the model's
   prediction for the replay through the real if / elseif / while / not / alias (leg B). *)
EXTENDS EvalWrap, Json, SequencesExt
CONSTANTS VL, EMIT
VSigma == {SP, QUOTE, BS, HASH, DOLLAR, LBRACE, RBRACE, PERCENT, LF, CR, 97, TAB, EQ}
CMD == <<99, 97, 112>>          \* "cap"
Env == (<<97>> :> <<88, SP, 89>>)    \* a = "X Y": an altered value that looks like ${a} would show
VARIABLE v
Init == v = <<>>
Next == Len(v) < VL /\ \E c \in VSigma : v' = Append(v, c)
Spec == Init /\ [][Next]_v
Seconds == {<<>>, <<97>>, <<QUOTE, 97, QUOTE>>, <<BS>>}
Lists == {<<v>>} \cup {<<v, w>> : w \in Seconds} \cup {<<w, v>> : w \in Seconds}
OnlyKnownClasses == \A as \in Lists : Wrapped(CMD, as, Env) = Identity(as) \/ ClassAll(as) # {}
Emit == EMIT => PrintT(<<"CASE", ToJson(SetToSeq({ [args |-> as, model |-> Wrapped(CMD, as, Env), cls |-> SetToSeq(ClassAll(as))] : as \in Lists }))>>)
\* bookkeeping for the evidence: which classes actually break, and which survive
Broken == Wrapped(CMD, <<v>>, Env) # Identity(<<v>>)
Stat == PrintT(<<"STAT", ToJson([v |-> v, broken |-> Broken, cls |-> SetToSeq(Class(v))])>>)
=============================================================================
