------------------------------- MODULE C02_MC -------------------------------
(* Leg A of C02: for every value of variable a over the class alphabet (grown one character per
   Next step), every template of the bounded set and every argument position, the I-level binder
   gives exactly the R-level semantics.  Each state prints its cases for the replay into the real
   runner (leg B). *)
EXTENDS Binding, Json, SequencesExt
CONSTANTS VL, EMIT
VSigma == {SP, QUOTE, BS, HASH, DOLLAR, LBRACE, RBRACE, PERCENT, LF, 97, EQ, TAB}
NameA == <<97>>    NameB == <<98, 46, 120>>      \* "a", "b.x"
L(t) == [k |-> "lit", t |-> t]   V(nm) == [k |-> "var", t |-> nm]   E(nm) == [k |-> "esc", t |-> nm]
T(ps) == [spread |-> FALSE, parts |-> ps]
Spread(nm) == [spread |-> TRUE, name |-> nm]
Lits == {<<112>>, <<112, SP, 113>>, <<QUOTE, HASH>>, <<LBRACE, 97, RBRACE>>}      \* p ; "p q" ; "# ; {a}
Parts == {L(t) : t \in Lits} \cup {V(NameA), V(NameB), E(NameA)}
Templates == {T(<<>>)} \cup {T(<<x>>) : x \in Parts} \cup {T(<<x, y>>) : x \in Parts, y \in Parts}
             \cup {T(<<V(NameA), L(<<112>>), V(NameA)>>), T(<<E(NameA), V(NameA), E(NameB)>>)}
VARIABLE va
Init == va = <<>>
Next == Len(va) < VL /\ \E c \in VSigma : va' = Append(va, c)
Spec == Init /\ [][Next]_va
Envs == {(NameA :> va), (NameA :> va) @@ (NameB :> <<81, SP, DOLLAR, LBRACE, 97, RBRACE>>)} \cup (IF va = <<>> THEN {<<>>} ELSE {})
TypeOK == \A t \in Templates : ArgOK(t)
\* single mode: verbatim, single pass, exactly one received argument, at every position of the command line
SingleOK == \A t \in Templates, e \in Envs : Bind(<<Written(t)>>, 1, e) = SemArg(t, e)
PositionOK == \A t \in {T(<<V(NameA)>>), T(<<L(<<112>>), V(NameA)>>)}, e \in Envs :
      LET as == <<T(<<L(<<120>>)>>), t, T(<<V(NameB)>>), t>> IN Bind(WrittenAll(as, 1), 1, e) = Sem(as, 1, e)
\* spread: the words of the value; the recorded re-tokenisation finding is confined to its value class
SpreadOK == \A e \in Envs : LET as == <<T(<<L(<<120>>)>>), Spread(NameA), T(<<V(NameA)>>)>> IN
      Bind(WrittenAll(as, 1), 1, e) = Sem(as, 1, e) \/ RetokenClass(va)
Cases == { [args |-> <<t>>, env |-> e] : t \in Templates, e \in Envs }
   \cup { [args |-> <<T(<<L(<<120>>)>>), Spread(NameA), T(<<V(NameA)>>)>>, env |-> e] : e \in Envs }
   \cup { [args |-> <<Spread(NameA)>>, env |-> e] : e \in Envs }
   \cup { [args |-> <<T(<<V(NameA)>>), T(<<L(<<112>>), V(NameA)>>), T(<<V(NameB)>>)>>, env |-> e] : e \in Envs }
EnvJ(e) == SetToSeq({ [k |-> n, v |-> e[n]] : n \in DOMAIN e })
Emit == EMIT => PrintT(<<"CASE", ToJson(SetToSeq({ [written |-> WrittenAll(c.args, 1), env |-> EnvJ(c.env), exp |-> Sem(c.args, 1, c.env),
                                     model |-> Bind(WrittenAll(c.args, 1), 1, c.env),
                                     spread |-> (\E i \in 1..Len(c.args) : c.args[i].spread)] : c \in Cases }))>>)
=============================================================================
