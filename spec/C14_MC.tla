------------------------------- MODULE C14_MC -------------------------------
(* Leg A of C14: every acyclic include tree over files 1..NF (includes go to higher indices, or to the
   missing file 0), built one line per step; pasting and flattening agree on the executed instructions,
   every entry carries its own file and line, errors name the first failing file/line in inclusion order.
   Every tree is printed with its expected flattening for the replay through parse_file. *)
EXTENDS Includes, Json
CONSTANTS NF, MaxLen, MaxIncs, WithErrors, EMIT
VARIABLES tree, cur            \* files are filled in order; cur = the file being written
Files == 1..NF
Init == tree = [f \in Files |-> <<>>] /\ cur = 1
Incs(f) == { <<g>> : g \in (f+1)..NF } \cup { <<g, h>> : g \in (f+1)..NF, h \in (f+1)..NF }
           \cup (IF WithErrors THEN {<<0>>} ELSE {})
IncCount == LET RECURSIVE Cnt(_,_)
                Cnt(f, j) == IF f > NF THEN 0 ELSE IF j > Len(tree[f]) THEN Cnt(f+1, 1) ELSE (IF tree[f][j].k = "inc" THEN 1 ELSE 0) + Cnt(f, j+1)
            IN Cnt(1, 1)
AddLine == /\ cur <= NF /\ Len(tree[cur]) < MaxLen
           /\ \E ln \in {[k |-> "plain"]} \cup (IF WithErrors THEN {[k |-> "bad"]} ELSE {}) \cup (IF IncCount < MaxIncs THEN {[k |-> "inc", to |-> i] : i \in Incs(cur)} ELSE {}) :
                tree' = [tree EXCEPT ![cur] = Append(@, ln)]
           /\ UNCHANGED cur
NextFile == cur <= NF /\ cur' = cur + 1 /\ UNCHANGED tree
Next == AddLine \/ NextFile
Spec == Init /\ [][Next]_<<tree, cur>>
Complete == cur = NF + 1
R == Flatten(tree, 1)
PasteEqualsFlatten == Complete => (IsErr(R) \/ Actionable(R) = PasteFile(tree, 1, 1))
Provenance == Complete => (IsErr(R) \/ \A k \in 1..Len(R.ok) : LET e == R.ok[k] IN e.file \in Files /\ e.line \in 1..Len(tree[e.file]) /\ tree[e.file][e.line].k = e.k)
ErrorsNamed == (Complete /\ IsErr(R)) => (IF R.err = "missing" THEN R.file = 0 ELSE tree[R.file][R.line].k = "bad")
Reach == LET RECURSIVE Rch(_)
             Rch(S) == LET N == S \cup UNION { UNION { {ln.to[k] : k \in 1..Len(ln.to)} : ln \in {tree[f][j] : j \in 1..Len(tree[f])} \cap {x \in {tree[f][j] : j \in 1..Len(tree[f])} : x.k = "inc"} } : f \in S \ {0} } IN IF N = S THEN S ELSE Rch(N)
         IN Rch({1})
\* only trees in which every written file is reachable from the root are printed (others add nothing)
Emit == (EMIT /\ Complete /\ \A f \in Files : (tree[f] # <<>> => f \in Reach)) => PrintT(<<"TREE", ToJson([tree |-> tree, exp |-> R])>>)
=============================================================================
