CONSTANTS Cap = 200 Bounded = TRUE
SPECIFICATION TraceSpec
CONSTRAINT Track
POSTCONDITION Accepted
CHECK_DEADLOCK FALSE
