CONSTANTS MaxDepth = 2 Wide = FALSE
CONSTANT HasPrefix <- MCHasPrefix
SPECIFICATION Spec
VIEW View
INVARIANT PushPopId
INVARIANT PopEmptyIsNoOp
INVARIANT PushKeepsOnlyDefinedCopies
INVARIANT Emit
CHECK_DEADLOCK FALSE
