------------------------------- MODULE C16_MC -------------------------------
(* Leg A of C16: every text over {a, b, é, 😀, space} up to length L (one state per text), every needle
   up to length 2, every index pair in [-2, size+1]: the relations the property names hold in the
   reference (prefix relation, split/join) in both units; every state prints the expected output of
   every command for the replay on the real SDK (in the unit the real strlen uses). *)
EXTENDS Strings, Json, SequencesExt
CONSTANTS L, EMIT
Sigma == {97, 98, 233, 128512, 32}
Needles == {<<>>} \cup {<<x>> : x \in Sigma} \cup {<<x, y>> : x \in {97, 233, 32}, y \in {97, 98, 128512}}
VARIABLE s
Init == s = <<>>
Next == Len(s) < L /\ \E c \in Sigma : s' = Append(s, c)
Spec == Init /\ [][Next]_s
Relations == \A t \in Needles : PrefixRelation(s, t) /\ SplitJoin(s, t)
Idx == (0 - 2)..(Size(s) + 1)
Case(cmd, args, exp) == [cmd |-> cmd, args |-> args, exp |-> exp]
Cases1 == { Case("strlen", <<s>>, Length(s)), Case("is_empty", <<s>>, IsEmpty(s)), Case("trim", <<s>>, Val(TrimR(TrimL(s)))), Case("trim_start", <<s>>, Val(TrimL(s))),
            Case("trim_end", <<s>>, Val(TrimR(s))), Case("uppercase", <<s>>, Val(Upper(s))), Case("lowercase", <<s>>, Val(Lower(s))), Case("substring", <<s>>, Val(s)) }
CasesT == UNION { { Case("indexof", <<s, t>>, IF t = <<>> THEN AnyR ELSE IndexOf(s, t)), Case("last_indexof", <<s, t>>, IF t = <<>> THEN AnyR ELSE LastIndexOf(s, t)),
                    Case("contains", <<s, t>>, Contains(s, t)), Case("starts_with", <<s, t>>, StartsWith(s, t)), Case("ends_with", <<s, t>>, EndsWith(s, t)),
                    Case("equals", <<s, t>>, Equals(s, t)), Case("concat", <<s, t, s>>, Val(s \o t \o s)),
                    Case("replace", <<s, t, <<120, 121>>>>, IF t = <<>> THEN Val(Interleave(s, <<120, 121>>)) ELSE Val(Replace(s, t, <<120, 121>>))),
                    Case("split", <<s, t>>, IF t = <<>> THEN AnyR ELSE [k |-> "list", v |-> Split(s, t, <<>>)]) } : t \in Needles }
CasesI == { [cmd |-> "substring", args |-> <<s>>, ints |-> <<a>>, exp |-> Substring1(s, a)] : a \in Idx }
   \cup { [cmd |-> "substring", args |-> <<s>>, ints |-> <<a, b>>, exp |-> Substring2(s, a, b)] : a \in Idx, b \in Idx }
\* numbers as thousandths; the harness writes them as decimals
NumPool == {0 - 1500, 0 - 1000, 0, 1, 500, 1000, 1500, 2000, 1000000000}
Leaves == {[op |-> "n", v |-> x] : x \in {0, 1, 2, 7, 10}}
Exprs1 == Leaves \cup {[op |-> o, l |-> a, r |-> b] : o \in {"+", "-", "*"}, a \in Leaves, b \in Leaves}
Exprs2 == {[op |-> o, l |-> a, r |-> b] : o \in {"+", "-", "*"}, a \in Exprs1, b \in {[op |-> "n", v |-> 2], [op |-> "-", l |-> [op |-> "n", v |-> 1], r |-> [op |-> "n", v |-> 7]]}}
NumCases == { [cmd |-> "less_than", a |-> a, b |-> b, exp |-> LessThan(a, b)] : a \in NumPool, b \in NumPool }
     \cup { [cmd |-> "greater_than", a |-> a, b |-> b, exp |-> GreaterThan(a, b)] : a \in NumPool, b \in NumPool }
\* out of domain: at least one operand is not a number (also twice the same text): the error result, not a truth value
BadNumTexts == {"abc", "", "1,5", "0x10"}
NumBadCases == { [cmd |-> c, a |-> x, b |-> y] : c \in {"less_than", "greater_than"}, x \in BadNumTexts \cup {"1"}, y \in BadNumTexts \cup {"1"} } \ { [cmd |-> c, a |-> "1", b |-> "1"] : c \in {"less_than", "greater_than"} }
CalcCases == { [e |-> e, exp |-> Calc(e)] : e \in Exprs1 \cup Exprs2 }
RangeCases == { [a |-> a, b |-> b, exp |-> RangeList(a, b)] : a \in (0 - 2)..3, b \in (0 - 2)..4 }
EmitNum == (EMIT /\ s = <<>>) => PrintT(<<"NUMCASES", ToJson([cmp |-> SetToSeq(NumCases), badcmp |-> SetToSeq(NumBadCases), calc |-> SetToSeq(CalcCases), range |-> SetToSeq(RangeCases)])>>)
Emit == EMIT => PrintT(<<"CASES", ToJson([unit |-> Unit, plain |-> SetToSeq(Cases1 \cup CasesT), indexed |-> SetToSeq(CasesI)])>>)
=============================================================================
