------------------------------- MODULE C07_Seq -------------------------------
(* C07, mixed sequences: behaviours of a small abstract machine over the stateful part of the library
   (collections behind handles, release, variables, scope stack, errors, aliases): a state records the
   kinds of the live handles; handle-producing commands feed later ones (PREV = the previous output).
   Every initial state (an id) grows one behaviour of length D; the choices are a pseudo-random but fully determined
   function of (Seed, id, position) - TLC's RandomElement is not reproducible from run to run, and a check must be -
   each completed behaviour is printed and replayed on one persistent context in the worker. *)
EXTENDS Naturals, Sequences, TLC, FiniteSets, Json, SequencesExt
CONSTANTS D, NSeq, Seed
VARIABLES seq, id
Cmds == {"array", "map", "set_new", "range", "array_push", "array_pop", "array_get", "array_set", "array_remove", "array_clear", "array_concat", "array_join",
         "map_put", "map_get", "map_remove", "map_keys", "map_to_properties", "map_load_properties", "set_put", "set_remove", "set_to_array", "set_from_array",
         "release", "json_parse", "json_encode", "split", "string_to_bytes", "bytes_to_string", "base64_encode", "base64_decode", "scope_push_stack", "scope_pop_stack",
         "set_by_name", "unset", "unset_all_vars", "get_all_var_names", "clear_scope", "exit_on_error", "trigger_error", "get_last_error", "alias", "unalias",
         "remove_command", "substring", "for", "end", "if", "else", "return", "goto", "eval", "not", "test_file", "temp_dir", "ls", "cat", "chmod", "env_to_map"}
Pool == {"PREV", "L", "M", "S", "Y", "R", "B", "CL", "CM", "E", "0", "1", "-1", "5", "W", "MB", "SP", "QT", "COPY", "-r", "COLL", "VAR", "NOVAR", "F", "D", "JSON", "IN", "LF"}
Args == {<<>>} \cup {<<x>> : x \in Pool} \cup {<<x, y>> : x \in Pool, y \in Pool} \cup {<<x, y, z>> : x \in {"PREV", "L", "M", "CL", "COLL", "COPY"}, y \in Pool, z \in {"E", "0", "W", "PREV"}}
CmdSeq == SetToSeq(Cmds)
ArgSeq == SetToSeq(Args)
\* a small deterministic scrambler (all intermediate values stay below 2^31)
P == 32749
Mix(a, b, c) == LET x0 == (a * 31 + b * 17 + c * 13 + Seed * 7 + 11) % P
                    x1 == (x0 * x0 + 12345) % P
                    x2 == (x1 * x1 + a + 3 * b) % P
                IN (x2 * 7 + x1) % P
Pick(sq, a, b, c) == sq[1 + (Mix(a, b, c) % Len(sq))]
Init == seq = <<>> /\ id \in 1..NSeq
Next == Len(seq) < D /\ seq' = Append(seq, [cmd |-> Pick(CmdSeq, id, Len(seq), 1), args |-> Pick(ArgSeq, id, Len(seq), 2)]) /\ UNCHANGED id
Spec == Init /\ [][Next]_<<seq, id>>
Emit == Len(seq) = D => PrintT(<<"SEQ", ToJson(seq)>>)
=============================================================================
