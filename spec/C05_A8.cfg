CONSTANTS MaxLines = 8 MaxDepth = 3 C0 = 1 Budget = 60 Scoped = {FALSE} CondCalls = FALSE EMIT = TRUE
SPECIFICATION Spec
INVARIANT Refines
INVARIANT EmitProg

CHECK_DEADLOCK FALSE
