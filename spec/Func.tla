------------------------------- MODULE Func -------------------------------
(* C05.  Functions: arguments, return values, early return, recursion, scoped isolation.
   Programs: line 0 opens the function f (scoped or not); its body may contain for-in, if/else, return
   (with or without a value), a recursive call, emit, dec; after it closes, the main part calls f as a
   statement (with or without an output variable r, with an argument), in condition position (CondCalls),
   and may contain for / if / emit / dec.
   Variables of the script: c (counter), i (loop variable), r (output variable), a1 (the argument ${1});
   0 stands for "undefined".
   R-level: RunBlock, tree walking; every call starts afresh; a <scope> call sees only its argument
            and leaves the caller's variables as before plus the output variable.
   I-level: the goto machine of flowcontrol/function + forin + ifelse: fn registration and block scan,
            function call stack (call line, output variable, scoped, saved variables), return / end
            function, for-in frames tagged with the call depth (matched only at that depth, dropped
            when the call is left), if/else call stack, generic end table.
   dc marks runs that enter a corner the property leaves open (a <scope> call ending without a
   value while its output variable already held one); they are not compared. *)
EXTENDS Naturals, Sequences, TLC, FiniteSets
CONSTANTS MaxLines, MaxDepth, C0, Budget, Scoped, CondCalls
Arr == <<1, 2>>
IsErr(x) == "err" \in DOMAIN x
VARIABLES phase, prog, open, struct,
          pc, v, trace, ifStack, forStack, fnStack, ifMeta, forMeta, fnInfo, endTab, steps, result
vars == <<phase, prog, open, struct, pc, v, trace, ifStack, forStack, fnStack, ifMeta, forMeta, fnInfo, endTab, steps, result>>
runVars == <<pc, v, trace, ifStack, forStack, fnStack, ifMeta, forMeta, fnInfo, endTab, steps, result>>
n == Len(prog)
\* a line: cmd, a (condition of if; value flag of ret), out (call has an output variable), arg (the argument passed: 5 or 6)
Line(cmd, a, out, arg) == [cmd |-> cmd, a |-> a, out |-> out, arg |-> arg]
Truth(cond, cv) == CASE cond = "T" -> TRUE [] cond = "F" -> FALSE [] cond = "C" -> cv > 0
V0 == [c |-> C0, i |-> 0, r |-> 0, a1 |-> 0, arr |-> TRUE]       \* arr: the array variable is visible
EmptyF == [x \in {} |-> 0]
Init == /\ phase = "build" /\ prog = <<>> /\ open = <<>> /\ struct = EmptyF
        /\ pc = 0 /\ v = V0 /\ trace = <<>> /\ ifStack = <<>> /\ forStack = <<>> /\ fnStack = <<>>
        /\ ifMeta = EmptyF /\ forMeta = EmptyF /\ fnInfo = EmptyF /\ endTab = EmptyF /\ steps = 0 /\ result = "none"
Room == n + Len(open) < MaxLines
Top == open[Len(open)]
InFn == open # <<>> /\ open[1].k = "fn"
FnClosed == 0 \in DOMAIN struct
AddFn == n = 0 /\ \E sc \in Scoped : prog' = <<Line("fn", sc, FALSE, 0)>> /\ open' = <<[k |-> "fn", line |-> 0, els |-> 0]>> /\ UNCHANGED struct
AddSimple == n > 0 /\ Room /\ \E cmd \in {"emit", "dec"} : prog' = Append(prog, Line(cmd, "T", FALSE, 0)) /\ UNCHANGED <<open, struct>>
\* a call with an output variable passes 5 or 8: two such calls must leave two different values in r
AddCall == n > 0 /\ Room /\ \E o \in (IF InFn THEN {FALSE} ELSE BOOLEAN) : \E g \in (IF InFn THEN {6} ELSE IF o THEN {5, 8} ELSE {5}) :
             prog' = Append(prog, Line("call", "T", o, g)) /\ UNCHANGED <<open, struct>>
AddRet == InFn /\ Room /\ \E val \in BOOLEAN : prog' = Append(prog, Line("ret", val, FALSE, 0)) /\ UNCHANGED <<open, struct>>
AddIf == n > 0 /\ n + Len(open) + 1 < MaxLines /\ Len(open) < MaxDepth
         /\ \E cond \in {"C", "F"} \cup (IF CondCalls /\ ~InFn THEN {"call"} ELSE {}) : prog' = Append(prog, Line("if", cond, FALSE, 5))
         /\ open' = Append(open, [k |-> "if", line |-> n, els |-> 0]) /\ UNCHANGED struct
AddFor == n > 0 /\ n + Len(open) + 1 < MaxLines /\ Len(open) < MaxDepth
          /\ prog' = Append(prog, Line("for", "T", FALSE, 0)) /\ open' = Append(open, [k |-> "for", line |-> n, els |-> 0]) /\ UNCHANGED struct
AddElse == Room /\ open # <<>> /\ Top.k = "if" /\ Top.els = 0
           /\ prog' = Append(prog, Line("else", "T", FALSE, 0)) /\ open' = [open EXCEPT ![Len(open)].els = n] /\ UNCHANGED struct
AddEnd == open # <<>> /\ prog' = Append(prog, Line("end", "T", FALSE, 0))
          /\ struct' = [x \in DOMAIN struct \cup {Top.line} |-> IF x = Top.line THEN [k |-> Top.k, els |-> Top.els, end |-> n] ELSE struct[x]]
          /\ open' = SubSeq(open, 1, Len(open) - 1)
Build == phase = "build" /\ (AddFn \/ AddSimple \/ AddCall \/ AddRet \/ AddIf \/ AddFor \/ AddElse \/ AddEnd) /\ phase' = "build" /\ UNCHANGED runVars
Start == phase = "build" /\ open = <<>> /\ n > 0 /\ FnClosed /\ phase' = "run" /\ UNCHANGED <<prog, open, struct>> /\ UNCHANGED runVars
IsScoped == prog[1].a

\* ---------------- R-level.  st = [v, trace, fuel, sig, rv, hasrv, depth, infn, dc]
RECURSIVE RunBlock(_,_,_), RunFor(_,_,_), Call(_,_,_)
Tick(st) == [st EXCEPT !.fuel = IF @ = 0 THEN 0 ELSE @ - 1]
\* ${1} is printed everywhere: after a call the caller's ${1} is what it was (scoped) / the last argument bound (plain variables otherwise)
EmitRec(lo, st) == <<lo, st.v.c, st.v.i, st.v.r, st.v.a1>>
\* a call of f with argument g and output flag o: returns the state after the call
Call(st, o, g) ==
  IF st.depth >= 3 THEN [st EXCEPT !.fuel = 0]
  ELSE LET entry == IF IsScoped THEN [c |-> 0, i |-> 0, r |-> 0, a1 |-> g, arr |-> FALSE]
                    ELSE [st.v EXCEPT !.a1 = g, !.r = IF o THEN 0 ELSE @]      \* the runner clears the call's output variable when the call starts
           s1 == RunBlock(1, struct[0].end, Tick([st EXCEPT !.v = entry, !.depth = @ + 1, !.infn = TRUE, !.sig = "norm", !.hasrv = FALSE, !.rv = 0]))
           base == IF IsScoped THEN st.v ELSE s1.v
           \* no value: a <scope> call leaves the caller's r as it was; otherwise r is what the body left in it (it was
           \* cleared when the call started; only the recorded programs of leg C have bodies that assign r: "setr")
           \* (a bare `return` deletes the output variable itself)
           after == IF o THEN [base EXCEPT !.r = IF s1.hasrv THEN s1.rv ELSE (IF IsScoped THEN base.r ELSE IF s1.sig = "ret" THEN 0 ELSE s1.v.r)] ELSE base
           open_corner == IsScoped /\ o /\ ~s1.hasrv /\ st.v.r # 0
       IN [s1 EXCEPT !.v = after, !.sig = "norm", !.depth = st.depth, !.infn = st.infn, !.dc = (s1.dc \/ open_corner),
                     !.rv = s1.rv, !.hasrv = s1.hasrv]
RunBlock(lo, hi, st) ==
  IF lo >= hi \/ st.fuel = 0 \/ st.sig = "ret" THEN st
  ELSE LET ln == prog[lo+1] IN
    CASE ln.cmd = "emit" -> RunBlock(lo+1, hi, Tick([st EXCEPT !.trace = Append(@, EmitRec(lo, st))]))
      [] ln.cmd = "dec"  -> RunBlock(lo+1, hi, Tick([st EXCEPT !.v.c = IF @ > 0 THEN @ - 1 ELSE 0]))
      [] ln.cmd = "setr" -> RunBlock(lo+1, hi, Tick([st EXCEPT !.v.r = 9]))      \* r = set 9 : a body-local assignment to the name of the output variable
      [] ln.cmd = "fn"   -> RunBlock(struct[lo].end + 1, hi, Tick(st))
      [] ln.cmd = "ret"  -> Tick([st EXCEPT !.sig = "ret", !.rv = IF ln.a THEN st.v.a1 ELSE 0, !.hasrv = ln.a])    \* return ${1}: the value differs between calls
      \* (the value a nested call returned belongs to that call: it is not the value of the call around it)
      [] ln.cmd = "call" -> LET s2 == Call(st, ln.out, ln.arg) IN RunBlock(lo+1, hi, [s2 EXCEPT !.hasrv = st.hasrv, !.rv = st.rv])
      [] ln.cmd = "if" ->
           LET s == struct[lo]
               bodyEnd == IF s.els # 0 THEN s.els ELSE s.end
               s0 == IF ln.a = "call" THEN Call(st, FALSE, ln.arg) ELSE st
               t == IF ln.a = "call" THEN s0.hasrv ELSE Truth(ln.a, st.v.c)       \* a call as condition: truthy iff it returned a value (its argument)
               s0r == [s0 EXCEPT !.hasrv = st.hasrv, !.rv = st.rv]
               s1 == IF t THEN RunBlock(lo+1, bodyEnd, Tick(s0r))
                     ELSE IF s.els # 0 THEN RunBlock(s.els+1, s.end, Tick(s0r)) ELSE Tick(s0r)
           IN RunBlock(s.end + 1, hi, s1)
      [] ln.cmd = "for" -> RunBlock(struct[lo].end + 1, hi, RunFor(lo, 1, Tick(st)))
      [] OTHER -> st
RunFor(lo, k, st) == IF ~st.v.arr \/ k > Len(Arr) \/ st.fuel = 0 \/ st.sig = "ret" THEN st
                     ELSE RunFor(lo, k+1, RunBlock(lo+1, struct[lo].end, Tick([st EXCEPT !.v.i = Arr[k]])))
Ref == RunBlock(0, n, [v |-> V0, trace |-> <<>>, fuel |-> Budget, sig |-> "norm", rv |-> 0, hasrv |-> FALSE, depth |-> 0, infn |-> FALSE, dc |-> FALSE])

\* ---------------- I-level
Opener(cmd) == cmd \in {"if", "for", "fn"}
\* find_commands with the generic "end" only (end_names = end_blocks = {"end"}); sb = the other openers
RECURSIVE FC(_,_,_,_,_,_)
FC(kind, recursive, line, skipTo, delta, els) ==
  IF line >= n THEN [err |-> "missing end"]
  ELSE IF line < skipTo THEN FC(kind, recursive, line+1, skipTo, delta, els)
  ELSE LET cmd == prog[line+1].cmd IN
    IF Opener(cmd) /\ cmd # kind THEN FC(kind, recursive, line+1, skipTo, delta+1, els)
    ELSE IF kind = "if" /\ cmd = "else" THEN FC(kind, recursive, line+1, skipTo, delta, IF els = 0 THEN line ELSE els)
    ELSE IF cmd = "end" /\ delta > 0 THEN FC(kind, recursive, line+1, skipTo, delta-1, els)
    ELSE IF cmd = "end" THEN [els |-> els, end |-> line]
    ELSE IF cmd = kind THEN
       IF recursive THEN LET sub == FC(kind, recursive, line+1, line+1, 0, 0) IN
                         IF IsErr(sub) THEN sub ELSE FC(kind, recursive, line+1, sub.end+1, delta, els)
       ELSE [err |-> "nested"]
    ELSE FC(kind, recursive, line+1, skipTo, delta, els)
Put(f, k, x) == [y \in DOMAIN f \cup {k} |-> IF y = k THEN x ELSE f[y]]
Depth == Len(fnStack)
RECURSIVE PopFor(_,_), PopIf(_,_), DropDeep(_,_)
PopFor(stk, line) == IF stk = <<>> THEN [found |-> FALSE, rest |-> <<>>]
   ELSE LET e == stk[Len(stk)]  rest == SubSeq(stk, 1, Len(stk)-1) IN
     IF (e.start = line \/ e.end = line) /\ e.depth = Depth THEN [found |-> TRUE, e |-> e, rest |-> rest] ELSE PopFor(rest, line)
PopIf(stk, line) == IF stk = <<>> THEN [found |-> FALSE, rest |-> <<>>]
   ELSE LET e == stk[Len(stk)]  rest == SubSeq(stk, 1, Len(stk)-1) IN
     IF e.current = line THEN [found |-> TRUE, e |-> e, rest |-> rest] ELSE PopIf(rest, line)
\* forin::remove_call_info_from_depth: on leaving a call at depth d, drop the frames created at depth >= d
DropDeep(stk, d) == IF stk = <<>> THEN <<>> ELSE (IF stk[1].depth >= d THEN <<>> ELSE <<stk[1]>>) \o DropDeep(Tail(stk), d)
Resolve(cmd, line) == IF cmd = "end" THEN (IF line \in DOMAIN endTab THEN endTab[line] ELSE "Noop") ELSE cmd
U(vs) == UNCHANGED vs
Step ==
  /\ phase = "run" /\ steps' = steps + 1 /\ UNCHANGED <<prog, open, struct>>
  /\ IF pc >= n THEN phase' = "done" /\ result' = "ok" /\ U(<<pc, v, trace, ifStack, forStack, fnStack, ifMeta, forMeta, fnInfo, endTab>>)
     ELSE IF steps >= Budget THEN phase' = "done" /\ result' = "budget" /\ U(<<pc, v, trace, ifStack, forStack, fnStack, ifMeta, forMeta, fnInfo, endTab>>)
     ELSE LET ln == prog[pc+1]  op == Resolve(ln.cmd, pc) IN
     /\ phase' = "run" /\ result' = result
     /\ CASE op = "emit" -> trace' = Append(trace, <<pc, v.c, v.i, v.r, v.a1>>) /\ pc' = pc+1 /\ U(<<v, ifStack, forStack, fnStack, ifMeta, forMeta, fnInfo, endTab>>)
          [] op = "dec" -> v' = [v EXCEPT !.c = IF @ > 0 THEN @ - 1 ELSE 0] /\ pc' = pc+1 /\ U(<<trace, ifStack, forStack, fnStack, ifMeta, forMeta, fnInfo, endTab>>)
          [] op \in {"Noop", "EndIf"} -> pc' = pc+1 /\ U(<<v, trace, ifStack, forStack, fnStack, ifMeta, forMeta, fnInfo, endTab>>)
          [] op = "fn" ->
               IF "f" \in DOMAIN fnInfo THEN pc' = fnInfo["f"].end + 1 /\ U(<<v, trace, ifStack, forStack, fnStack, ifMeta, forMeta, fnInfo, endTab>>)
               ELSE LET m == FC("fn", FALSE, pc+1, pc+1, 0, 0) IN
                    /\ fnInfo' = Put(fnInfo, "f", [start |-> pc, end |-> m.end]) /\ endTab' = Put(endTab, m.end, "EndFn")
                    /\ pc' = m.end + 1 /\ U(<<v, trace, ifStack, forStack, fnStack, ifMeta, forMeta>>)
          [] op = "call" ->
               /\ fnStack' = Append(fnStack, [call |-> pc, start |-> fnInfo["f"].start, end |-> fnInfo["f"].end, out |-> ln.out, saved |-> v])
               /\ v' = (IF IsScoped THEN [c |-> 0, i |-> 0, r |-> 0, a1 |-> ln.arg, arr |-> FALSE]       \* scope::push clears, then ${1} is set
                        ELSE [v EXCEPT !.a1 = ln.arg, !.r = IF ln.out THEN 0 ELSE @])                    \* runner: GoTo(None) deletes the output variable
               /\ pc' = fnInfo["f"].start + 1 /\ U(<<trace, ifStack, forStack, ifMeta, forMeta, fnInfo, endTab>>)
          [] op = "EndFn" ->
               IF fnStack # <<>> /\ fnStack[Len(fnStack)].end = pc
               THEN LET f == fnStack[Len(fnStack)] IN
                    /\ pc' = f.call + 1 /\ fnStack' = SubSeq(fnStack, 1, Len(fnStack)-1)
                    /\ forStack' = DropDeep(forStack, Len(fnStack))
                    /\ v' = (IF IsScoped THEN f.saved ELSE v)          \* scope::pop without copies; the runner then deletes the "end" line's output (none)
                    /\ U(<<trace, ifStack, ifMeta, forMeta, fnInfo, endTab>>)
               ELSE pc' = pc+1 /\ U(<<v, trace, ifStack, forStack, fnStack, ifMeta, forMeta, fnInfo, endTab>>)
          [] op = "ret" ->
               IF fnStack # <<>> /\ fnStack[Len(fnStack)].start < pc /\ fnStack[Len(fnStack)].end > pc
               THEN LET f == fnStack[Len(fnStack)]
                        rv == IF ln.a THEN v.a1 ELSE 0
                        inner == IF f.out THEN [v EXCEPT !.r = rv] ELSE v
                        restored == IF IsScoped THEN (IF f.out /\ inner.r # 0 THEN [f.saved EXCEPT !.r = inner.r] ELSE f.saved) ELSE inner
                    IN /\ v' = restored /\ pc' = f.call + 1 /\ fnStack' = SubSeq(fnStack, 1, Len(fnStack)-1)
                       /\ forStack' = DropDeep(forStack, Len(fnStack))
                       /\ U(<<trace, ifStack, ifMeta, forMeta, fnInfo, endTab>>)
               ELSE pc' = pc+1 /\ U(<<v, trace, ifStack, forStack, fnStack, ifMeta, forMeta, fnInfo, endTab>>)
          [] op = "if" ->
               LET m == IF pc \in DOMAIN ifMeta THEN ifMeta[pc] ELSE FC("if", TRUE, pc+1, pc+1, 0, 0) IN
               /\ ifMeta' = Put(ifMeta, pc, m) /\ endTab' = Put(endTab, m.end, "EndIf")
               /\ U(<<v, trace, forStack, fnStack, forMeta, fnInfo>>)
               /\ IF Truth(ln.a, v.c) THEN ifStack' = Append(ifStack, [current |-> IF m.els = 0 THEN m.end ELSE m.els, passed |-> TRUE, end |-> m.end]) /\ pc' = pc+1
                  ELSE IF m.els = 0 THEN pc' = m.end + 1 /\ U(<<ifStack>>)
                  ELSE ifStack' = Append(ifStack, [current |-> m.els, passed |-> FALSE, end |-> m.end]) /\ pc' = m.els
          [] op = "else" ->
               LET p == PopIf(ifStack, pc) IN
               /\ ifStack' = p.rest /\ pc' = (IF p.found /\ p.e.passed THEN p.e.end + 1 ELSE pc+1)
               /\ U(<<v, trace, forStack, fnStack, ifMeta, forMeta, fnInfo, endTab>>)
          [] op = "for" ->
               LET top == IF forStack = <<>> THEN [start |-> 0, end |-> 0, depth |-> 0, iter |-> 0] ELSE forStack[Len(forStack)]
                   resume == forStack # <<>> /\ (top.start = pc \/ top.end = pc) /\ top.depth = Depth
                   base == IF resume THEN SubSeq(forStack, 1, Len(forStack)-1) ELSE forStack
                   m == IF resume THEN [end |-> top.end] ELSE IF pc \in DOMAIN forMeta THEN forMeta[pc] ELSE FC("for", TRUE, pc+1, pc+1, 0, 0)
                   it == IF resume THEN top.iter ELSE 0
                   fdepth == IF resume THEN top.depth ELSE Depth
               IN /\ forMeta' = (IF resume THEN forMeta ELSE Put(forMeta, pc, [end |-> m.end]))
                  /\ endTab' = (IF resume THEN endTab ELSE Put(endTab, m.end, "EndFor"))
                  /\ U(<<trace, ifStack, fnStack, ifMeta, fnInfo>>)
                  /\ IF v.arr /\ it < Len(Arr) THEN /\ forStack' = Append(base, [iter |-> it + 1, start |-> pc, end |-> m.end, depth |-> fdepth])
                                                    /\ v' = [v EXCEPT !.i = Arr[it + 1]] /\ pc' = pc+1
                     ELSE forStack' = base /\ v' = v /\ pc' = m.end + 1
          [] op = "EndFor" ->
               LET p == PopFor(forStack, pc) IN
               /\ U(<<v, trace, ifStack, fnStack, ifMeta, forMeta, fnInfo, endTab>>)
               /\ IF p.found THEN forStack' = Append(p.rest, p.e) /\ pc' = p.e.start ELSE forStack' = p.rest /\ pc' = pc+1
Next == Build \/ Start \/ Step
Spec == Init /\ [][Next]_vars
Obs(x) == [c |-> x.c, i |-> x.i, r |-> x.r]
Refines == (phase = "done" /\ result = "ok") => LET x == Ref IN x.fuel = 0 \/ x.dc \/ (trace = x.trace /\ Obs(v) = Obs(x.v))
=============================================================================
