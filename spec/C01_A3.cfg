CONSTANTS AL = 2 NA = 2 WIDE = FALSE EMIT = FALSE
SPECIFICATION Spec
INVARIANT TypeOK
INVARIANT RoundTrip
INVARIANT InScript
CHECK_DEADLOCK FALSE
