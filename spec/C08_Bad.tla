------------------------------- MODULE C08_Bad -------------------------------
(* Leg A of C08 (malformed lines rejected in place): single-defect lines built by Syntax!Malformed
   on top of well-formed renderings; the model must reject each with the documented kind, at the
   line where it stands in a script; every case is printed for the replay into the real parser. *)
EXTENDS Syntax, Json
CONSTANT AL
Sigma == {SP, QUOTE, BS, HASH, EQ, DOLLAR, 110, 97, TAB, LF, 233}
Strs == UNION { [1..k -> Sigma] : k \in 0..AL }
Inss == { [label |-> l, out |-> o, cmd |-> <<99, 109>>, args |-> a] : l \in {None, <<76>>}, o \in {None, <<111>>}, a \in {<<>>, <<<<97, SP>>>>} }
VARIABLE m
Init == m \in UNION { { [kind |-> k, ins |-> i, a |-> a, x |-> x] : i \in Inss, a \in Strs, x \in XSet(k) } : k \in MalformedKinds }
Next == UNCHANGED m
Spec == Init /\ [][Next]_m
Bad == Malformed(m.kind, m.ins, m.a, m.x)
Good == <<SP, 122, SP, QUOTE, HASH, QUOTE>>
Rejected == /\ ParseLine(Bad) = Err(ErrOf(m.kind))
            /\ ParseText(Bad \o <<LF>>) = [err |-> ErrOf(m.kind), line |-> 1]
            /\ ParseText(Good \o <<LF>> \o Good \o <<CR, LF>> \o Bad \o <<LF>> \o Good) = [err |-> ErrOf(m.kind), line |-> 3]
Emit == PrintT(<<"BAD", ToJson([kind |-> m.kind, err |-> ErrOf(m.kind), line |-> Bad])>>)
=============================================================================
