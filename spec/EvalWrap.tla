------------------------------- MODULE EvalWrap -------------------------------
(* C09.  A command used as the condition of if / elseif / while / not, or invoked through a
   user alias, is re-serialised by duckscript_sdk/src/utils/eval.rs::parse into a text line,
   parsed again and bound again.
   R-level: the wrapped command receives exactly the direct call's arguments (identity).
   I-level: Wrapped = Bind o ParseLine o Reser, composed from Parser and Expansion. *)
EXTENDS Expansion
Contains(s, c) == \E i \in 1..Len(s) : s[i] = c
RECURSIVE Filter(_,_), Dbl(_)
Filter(s, drop) == IF s = <<>> THEN <<>> ELSE (IF s[1] \in drop THEN <<>> ELSE <<s[1]>>) \o Filter(Tail(s), drop)
Dbl(s) == IF s = <<>> THEN <<>> ELSE (IF s[1] = BS THEN <<BS, BS>> ELSE <<s[1]>>) \o Dbl(Tail(s))
\* one argument of eval.rs::parse
SerArg(a) == IF a = <<>> THEN <<QUOTE, QUOTE>>
             ELSE IF a[1] = QUOTE /\ a[Len(a)] = QUOTE THEN <<BS>> \o a \o <<BS>>
             ELSE IF Contains(a, SP) THEN <<QUOTE>> \o a \o <<QUOTE>> ELSE a
RECURSIVE SerAll(_)
SerAll(args) == IF args = <<>> THEN <<>> ELSE SerArg(args[1]) \o <<SP>> \o SerAll(Tail(args))
Reser(args) == Dbl(Filter(SerAll(args), {CR, LF}))
\* what the wrapped command receives: [ok |-> TRUE, args] or [ok |-> FALSE] (the wrapper reports an error / runs something else)
Wrapped(cmd, args, env) ==
  LET r == ParseLine(Reser(<<cmd>> \o args)) IN
  IF IsErr(r) THEN [ok |-> FALSE, args |-> <<>>]
  ELSE IF r.t # "script" \/ ~r.cmd.has \/ r.cmd.val # cmd \/ r.out.has \/ r.label.has THEN [ok |-> FALSE, args |-> <<>>]
  ELSE [ok |-> TRUE, args |-> Bind(r.args, 1, env)]
Identity(args) == [ok |-> TRUE, args |-> args]
\* value classes of the recorded finding (DESIGN section 9 #10): the re-serialisation can only alter
\* an argument list in which some value contains one of these
HasSub(s, t) == \E i \in 1..(Len(s) - Len(t) + 1) : SubSeq(s, i, i + Len(t) - 1) = t
ClassNames == {"linebreak", "hash", "quote", "dollar", "percent", "blank", "equals"}
InClass(k, v) == CASE k = "linebreak" -> Contains(v, LF) \/ Contains(v, CR)
                   [] k = "hash" -> Contains(v, HASH)
                   [] k = "quote" -> Contains(v, QUOTE)
                   [] k = "dollar" -> Contains(v, DOLLAR)
                   [] k = "percent" -> Contains(v, PERCENT)
                   [] k = "blank" -> \E i \in 1..Len(v) : IsWS(v[i]) /\ v[i] \notin {SP, LF, CR}     \* TAB, NBSP, ...
                   [] k = "equals" -> v # <<>> /\ v[1] = EQ
Class(v) == { k \in ClassNames : InClass(k, v) }
ClassAll(args) == UNION { Class(args[i]) : i \in 1..Len(args) }
=============================================================================
