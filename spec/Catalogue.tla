------------------------------- MODULE Catalogue -------------------------------
(* C07.  The oracle is deliberately small: every invocation of a standard-library command must be
   followed by a return of one of the documented result kinds - a panic, an abort or a missing return
   is a step with no counterpart in this specification.  What the specification contributes is the
   input space: the real registry (read from a file the harness writes, so a new command is covered
   the day it is registered) x argument lists over typed pools defined here by *kind*:
     numbers  0 1 -1 5 HUGE (> u64) I64 (2^63) DEC (1.5) W (non-numeric) E (empty)
     texts    E W MB (multi-byte) SP (with a space) QT, QT2 (quotes and #) NL (line break)
     handles  L M S Y (live array / map / set / bytes) R (released) B (never issued, handle look-alike)
     flags    COPY -r COLL PREFIX IN SCOPE     names  VAR (defined) NOVAR E
     paths    F D G (existing file / directory / nested file) GLOB NOFILE SEPEXT (d/g.txt)
   Commands with a signature in Sig get the product of their typed pools; every command also gets the
   untyped pool at arity 0..2.  Excluded, as in the property: commands whose purpose is to block or
   leave the process (read, sleep, exec, spawn, watchdog, exit, network).  Allocation proportional to a
   *valid* huge number (random_text 2^63) is outside the domain and kept out of the pools. *)
EXTENDS Naturals, Sequences, TLC, FiniteSets
ResultKinds == {"continue", "goto", "error", "crash", "exit"}
Num == {"0", "1", "-1", "5", "HUGE", "I64", "DEC", "W", "E"}
\* LF / CRLF: a value made only of line breaks (dropped entirely by the re-serialisation of eval / alias / conditions)
Text == {"E", "W", "MB", "SP", "QT", "QT2", "NL", "LF", "CRLF"}
\* CL = an array that contains its own handle; CM = a map holding an array that holds the map again (handle cycles:
\* every traversal through handles - json_encode --collection, release -r - must still terminate)
Handle == {"L", "M", "S", "Y", "R", "B", "CL", "CM"}
VarN == {"VAR", "NOVAR", "E"}
Path == {"F", "D", "G", "GLOB", "NOFILE", "E", "SEPEXT"}
Untyped == {"E", "0", "-1", "HUGE", "MB", "SP", "QT", "QT2", "COPY", "-r", "COLL", "PREFIX", "KV", "JSON", "SEMVER", "VAR", "F", "D", "NOFILE", "L", "M", "S", "R", "B", "CL", "CM", "EQ", "PAR", "LF"}
Small == {"E", "0", "-1", "5", "MB", "SP", "L", "M", "F", "NOFILE"}
Sig == [ n \in {} |-> <<>> ]
  @@ ("std::string::SubString" :> <<Text, Num, Num>>) @@ ("std::collections::ArraySet" :> <<Handle, Num, Text>>) @@ ("std::collections::ArrayGet" :> <<Handle, Num>>)
  @@ ("std::collections::ArrayRemove" :> <<Handle, Num>>) @@ ("std::collections::MapPut" :> <<Handle, Text, Text>>) @@ ("std::collections::Range" :> <<Num, Num>>)
  @@ ("std::random::Range" :> <<Num, Num>>) @@ ("std::random::Text" :> <<Num \ {"I64"}>>) @@ ("std::scope::PushStack" :> <<{"COPY", "W"}, VarN, VarN>>)
  @@ ("std::scope::PopStack" :> <<{"COPY", "W"}, VarN, VarN>>) @@ ("std::var::SetByName" :> <<VarN \cup {"SP"}, Text>>) @@ ("std::var::GetByName" :> <<VarN \cup {"SP"}>>)
  @@ ("std::math::Calc" :> <<Num, {"+", "/", "%", "^", "PAR"}, Num>>) @@ ("std::math::LessThan" :> <<Num, Num>>) @@ ("std::math::GreaterThan" :> <<Num, Num>>)
  @@ ("std::math::HexEncode" :> <<Num>>) @@ ("std::math::HexDecode" :> <<Num \cup {"0x", "0xzz"}>>) @@ ("std::semver::IsNewer" :> <<{"SEMVER", "W", "E", "1"}, {"SEMVER", "W", "E"}>>)
  @@ ("std::semver::Parse" :> <<{"SEMVER", "W", "E", "1", "MB"}>>) @@ ("std::json::Parse" :> <<{"COLL", "JSON", "W"}, {"JSON", "QT", "W", "E", "[", "{\"a\":"}>>)
  @@ ("std::json::Encode" :> <<{"COLL", "VAR", "OBJ"}, Handle \cup {"VAR", "NOVAR", "OBJ"}>>) @@ ("std::fs::TempFile" :> <<{"W", "SEPEXT", "E", "MB", "SP"}>>)
  @@ ("std::env::SetVar" :> <<{"KV", "W", "E", "MB", "SP", "--handle"}, Text \cup Handle>>) @@ ("std::env::UnsetVar" :> <<{"KV", "W", "E", "MB", "SP"}>>)
  @@ ("std::fs::CopyPath" :> <<Path, Path>>) @@ ("std::fs::MovePath" :> <<Path, Path>>) @@ ("std::fs::DeletePath" :> <<{"-r", "F", "D"}, Path>>)
  @@ ("std::fs::SetMode" :> <<Num \cup {"777", "888"}, Path>>) @@ ("std::fs::WriteText" :> <<Path, Text>>) @@ ("std::fs::WriteBytes" :> <<Path, Handle>>)
  @@ ("std::flowcontrol::ForIn" :> <<VarN, {"IN", "W"}, Handle>>) @@ ("std::flowcontrol::Function" :> <<{"SCOPE", "W", "E"}, {"W", "E", "SP"}>>)
  @@ ("std::string::Replace" :> <<Text, Text, Text>>) @@ ("std::string::Split" :> <<Text, Text>>) @@ ("std::string::IndexOf" :> <<Text, Text>>)
  @@ ("std::string::BytesToString" :> <<Handle>>) @@ ("std::string::Base64Decode" :> <<Text \cup {"=", "QQ="}>>) @@ ("std::string::Base64Encode" :> <<Handle>>)
  @@ ("std::collections::ArrayJoin" :> <<Handle, Text>>) @@ ("std::collections::ArrayConcat" :> <<Handle, Handle, Handle>>) @@ ("std::fs::JoinPath" :> <<Text, Text>>)
  @@ ("std::test::TestDirectory" :> <<Path, Text>>) @@ ("std::test::TestFile" :> <<Path, Text>>) @@ ("std::fs::GlobArray" :> <<Path \cup {"[", "**"}>>) @@ ("std::fs::ReadText" :> <<Path>>)
  @@ ("std::time::CurrentTimeMillies" :> <<Text>>) @@ ("std::process::ProcessID" :> <<Text>>) @@ ("std::lib::alias::Set" :> <<{"W", "E", "SP"}, {"W", "echo"}, Text>>)
RECURSIVE Product(_)
Product(pools) == IF pools = <<>> THEN {<<>>} ELSE {<<x>> \o rest : x \in pools[1], rest \in Product(Tail(pools))}
Prefixes(pools) == UNION {Product(SubSeq(pools, 1, k)) : k \in 0..Len(pools)}
UntypedLists == {<<>>} \cup {<<x>> : x \in Untyped} \cup {<<x, y>> : x \in Untyped, y \in Untyped} \cup {<<x, y, z>> : x \in Small, y \in Small, z \in {"E", "0", "MB"}}
ArgLists(name) == UntypedLists \cup (IF name \in DOMAIN Sig THEN Prefixes(Sig[name]) ELSE {})
=============================================================================
