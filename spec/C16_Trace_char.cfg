CONSTANTS Unit = "char"
SPECIFICATION Spec
POSTCONDITION Done
CHECK_DEADLOCK FALSE
