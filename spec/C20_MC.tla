------------------------------- MODULE C20_MC -------------------------------
(* Leg A of C20: every script of up to N statements (one statement per step) x label / output spelling
   x every invocation form; sanity of the reference (lint never runs the script; run forms succeed
   exactly when the library run does); every (form, script) is printed with the expected status for
   the replay through the real duck executable. *)
EXTENDS Cli, Json, SequencesExt
CONSTANTS N, EMIT
VARIABLE s
Init == s \in {[st |-> <<>>, label |-> lb, out |-> o, missing |-> FALSE] : lb \in {"none", "lower", "Upper"}, o \in {"none", "lower", "Upper"}}
Next == Len(s.st) < N /\ \E k \in (IF s.st = <<>> THEN FirstKinds ELSE Kinds) : s' = [s EXCEPT !.st = Append(@, k)]
Spec == Init /\ [][Next]_s
Forms == RunForms \cup LintForms \cup InfoForms
LintNeverRuns == \A f \in LintForms : ~Status(f, s).ran
RunMirrorsLibrary == \A f \in RunForms : Status(f, s).status0 = (Outcome(s) \in {"ok", "exit-zero"}) /\ Status(f, s).errline = ~Status(f, s).status0
Emit == (EMIT /\ s.st # <<>>) => PrintT(<<"CASE", ToJson([script |-> s, outcome |-> Outcome(s), forms |-> [f \in Forms |-> Status(f, s)],
                                                        missing |-> [f \in {"file", "-l", "--lint"} |-> Status(f, [s EXCEPT !.missing = TRUE])]])>>)
=============================================================================
