------------------------------- MODULE Syntax -------------------------------
(* R-level of C01/C08: the documented line syntax as a *renderer*.
   Render(ins, ch) writes the instruction ins = [label, out, cmd, args] as one script line under the
   rendering choices ch (quoting when optional, separator widths, leading/trailing blanks, comment,
   spaces around '=').  The property says: parsing any such line gives back exactly ins.
   Malformed(..) builds lines with exactly one defect of a documented kind. *)
EXTENDS Parser
None == <<>>                      \* absent label / output / command (names are never empty)
RECURSIVE Spaces(_)
Spaces(n) == IF n = 0 THEN <<>> ELSE <<SP>> \o Spaces(n-1)
HasC(s, c) == \E i \in 1..Len(s) : s[i] = c
HasWS(s) == \E i \in 1..Len(s) : IsWS(s[i])
\* name class of labels, output variables and commands
NameOK(nm) == /\ nm # <<>> /\ nm[1] \notin {COLON, BANG}
              /\ \A i \in 1..Len(nm) : nm[i] \notin {QUOTE, BS, HASH, EQ} /\ ~IsWS(nm[i])
Valid(ins) == /\ (ins.label = None \/ NameOK(ins.label)) /\ (ins.out = None \/ NameOK(ins.out))
              /\ (ins.cmd = None \/ NameOK(ins.cmd)) /\ (ins.cmd = None => ins.args = <<>>)
\* Only the space character separates tokens, so quoting is mandatory iff the argument is empty, contains a
\* space or '#', is the first argument, starts with '=' and there is no output variable (else "cmd =x" reads
\* as an assignment), or its unquoted form would END with a raw white-space character (TAB written raw, NBSP, ...:
\* at the end of the line it would be trimmed away).  Other white space may stand raw inside an unquoted token.
RawWS(c, rawtab) == IsWS(c) /\ c \notin {LF, CR} /\ (c # TAB \/ rawtab)
MustQuote(a, first, noOut, rawtab) == a = <<>> \/ HasC(a, SP) \/ HasC(a, HASH) \/ (first /\ noOut /\ a[1] = EQ) \/ RawWS(a[Len(a)], rawtab)
RECURSIVE Esc(_,_)
Esc(a, rawtab) == IF a = <<>> THEN <<>> ELSE
   (CASE a[1] = BS -> <<BS, BS>> [] a[1] = QUOTE -> <<BS, QUOTE>> [] a[1] = LF -> <<BS, 110>>
      [] a[1] = CR -> <<BS, 114>> [] a[1] = TAB -> (IF rawtab THEN <<TAB>> ELSE <<BS, 116>>)
      [] OTHER -> <<a[1]>>) \o Esc(Tail(a), rawtab)
Form(a, quoted, rawtab) == IF quoted THEN <<QUOTE>> \o Esc(a, rawtab) \o <<QUOTE>> ELSE Esc(a, rawtab)
RECURSIVE RenderArgs(_,_,_,_)
RenderArgs(args, i, noOut, ch) ==
  IF i > Len(args) THEN <<>>
  ELSE Spaces(ch.sep[i]) \o Form(args[i], ch.q[i] \/ MustQuote(args[i], i = 1, noOut, ch.rawtab[i]), ch.rawtab[i])
       \o RenderArgs(args, i+1, noOut, ch)
\* ch = [lead, labsep, eqpre, eqpost, sep, q, rawtab, trail, comment]
ChoiceOK(ins, ch) == /\ \A i \in 1..Len(ch.lead) : IsWS(ch.lead[i]) /\ ch.lead[i] \notin {LF, CR}
                     /\ ch.labsep >= 1 /\ Len(ch.sep) = Len(ins.args) /\ Len(ch.q) = Len(ins.args)
                     /\ Len(ch.rawtab) = Len(ins.args) /\ \A i \in 1..Len(ch.sep) : ch.sep[i] >= 1
                     /\ (ch.comment # <<>> => ~HasC(ch.comment[1], LF) /\ ~HasC(ch.comment[1], CR))
Render(ins, ch) ==
  ch.lead
  \o (IF ins.label = None THEN <<>> ELSE <<COLON>> \o ins.label \o Spaces(ch.labsep))
  \o (IF ins.out = None THEN <<>> ELSE ins.out \o Spaces(ch.eqpre) \o <<EQ>> \o Spaces(ch.eqpost))
  \o ins.cmd
  \o RenderArgs(ins.args, 1, ins.out = None, ch)
  \o Spaces(ch.trail)
  \o (IF ch.comment = <<>> THEN <<>> ELSE <<HASH>> \o ch.comment[1])
\* what parsing must give back (in the normalised form of Parser!Norm)
One(x) == IF x = None THEN <<>> ELSE <<x>>
Expected(ins) == IF ins.label = None /\ ins.out = None /\ ins.cmd = None THEN [t |-> "empty"]
                 ELSE [t |-> "script", label |-> (IF ins.label = None THEN <<>> ELSE <<<<COLON>> \o ins.label>>),
                       out |-> One(ins.out), cmd |-> One(ins.cmd), args |-> ins.args]

\* ---- single-defect malformed lines (C08): kind -> the documented error
\* "qend": unterminated quoted last argument; "esc": an undocumented escape \x inside an argument;
\* "bsend": backslash at the end of the line; "nameq"/"namebs": a name that begins with a quote /
\* contains a backslash; "bang": '!' alone; "bangx": unknown pre-processor command
MalformedKinds == {"qend", "esc", "escvar", "bsend", "nameq", "namebs", "bang", "bangx", "preqend", "preesc"}
ErrOf(kind) == CASE kind \in {"qend", "preqend"} -> "MissingEndQuotes"
                 [] kind \in {"esc", "escvar", "bsend", "preesc"} -> "ControlWithoutValidValue"
                 [] kind = "nameq" -> "InvalidQuotesLocation"
                 [] kind = "namebs" -> "InvalidControlLocation"
                 [] kind = "bang" -> "PreProcessNoCommandFound"
                 [] kind = "bangx" -> "UnknownPreProcessorCommand"
\* prefix = a well-formed rendering (without trailing blanks or comment) of an instruction with a command
Plain(ins) == [lead |-> <<>>, labsep |-> 1, eqpre |-> 1, eqpost |-> 1, sep |-> [i \in 1..Len(ins.args) |-> 1],
               q |-> [i \in 1..Len(ins.args) |-> FALSE], rawtab |-> [i \in 1..Len(ins.args) |-> FALSE],
               trail |-> 0, comment |-> <<>>]
BadEscLetters == {97, 120, 48, SP, 123, 35}       \* a x 0 space { # : none of \ " n r t $
\* "escvar": after \$ only '{' is documented (the escaped \${ form); every other follower - including the
\* characters that are escapes on their own (\ " n r t) and a second '$' - is an undocumented escape
BadVarLetters == {BS, QUOTE, 110, 114, 116, DOLLAR, 97, SP, HASH}
XSet(kind) == IF kind = "escvar" THEN BadVarLetters ELSE BadEscLetters
\* what stands before the command name: the label and, when the instruction has one, the output variable and '='
\* (a quoted or escaped name is malformed in the command position behind `out =` as much as at the line start)
NamePrefix(ins) == (IF ins.label = None THEN <<>> ELSE <<COLON>> \o ins.label \o <<SP>>) \o (IF ins.out = None THEN <<>> ELSE ins.out \o <<SP, EQ, SP>>)
\* a pre-processor line may be indented like any other line: the filler character also selects the indentation
LeadOf(x) == CASE x = SP -> <<SP, SP>> [] x = 120 -> <<TAB>> [] x = 48 -> <<SP, TAB>> [] OTHER -> <<>>
Malformed(kind, ins, a, x) ==        \* ins has a command; a = an extra argument body; x = a filler character
  LET pre == Render(ins, Plain(ins)) IN
  CASE kind = "qend"   -> pre \o <<SP, QUOTE>> \o Esc(a, FALSE)
    [] kind = "esc"    -> pre \o <<SP, QUOTE>> \o Esc(a, FALSE) \o <<BS, x>> \o <<QUOTE>>
    [] kind = "escvar" -> pre \o <<SP, QUOTE>> \o Esc(a, FALSE) \o <<BS, DOLLAR, x>> \o (IF x = DOLLAR THEN <<LBRACE, 97, 125>> ELSE <<>>) \o <<QUOTE>>
    [] kind = "bsend"  -> pre \o <<SP>> \o <<120, BS>>
    [] kind = "nameq"  -> NamePrefix(ins) \o <<QUOTE>> \o ins.cmd \o <<QUOTE>>
    [] kind = "namebs" -> NamePrefix(ins) \o ins.cmd \o <<BS, BS>> \o <<x>>
    \* the arguments of a (known) pre-processor command are scanned like any other arguments
    [] kind = "preqend" -> LeadOf(x) \o <<BANG, 112, 114, 105, 110, 116, SP, QUOTE>> \o Esc(a, FALSE)
    [] kind = "preesc"  -> LeadOf(x) \o <<BANG, 112, 114, 105, 110, 116, SP, QUOTE>> \o Esc(a, FALSE) \o <<BS, 97, QUOTE>>
    [] kind = "bang"   -> LeadOf(x) \o <<BANG>> \o Spaces(Len(a))
    [] kind = "bangx"  -> LeadOf(x) \o <<BANG, 122, 122>> \o (IF a = <<>> THEN <<>> ELSE <<SP>> \o Form(a, TRUE, FALSE))
=============================================================================
