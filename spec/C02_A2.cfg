CONSTANTS VL = 2 EMIT = TRUE
SPECIFICATION Spec
INVARIANT TypeOK
INVARIANT SingleOK
INVARIANT PositionOK
INVARIANT SpreadOK
INVARIANT Emit
CHECK_DEADLOCK FALSE
