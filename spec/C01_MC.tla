------------------------------- MODULE C01_MC -------------------------------
(* Leg A of C01: every rendering of every bounded instruction parses back to it (Parser = I-level,
   Syntax = R-level).  Instructions are grown by Next steps (one argument / one character at a time)
   so that TLC's BFS spreads the work over its workers.  With EMIT = TRUE every state also prints
   its renderings for the replay into the real parser (leg B). *)
EXTENDS Syntax, Json, SequencesExt
CONSTANTS AL, NA, WIDE, EMIT     \* max argument length, max #arguments, wide choice set?, emit cases?
Sigma == {SP, QUOTE, BS, HASH, EQ, COLON, BANG, DOLLAR, LBRACE, 110, 97, TAB, LF, 233, 37, 160}
NmL == <<76>>   NmO == <<111, 46, 120>>   NmC == <<99, 58>>        \* "L"  "o.x"  "c:"
VARIABLES ins
Init == ins \in { [label |-> l, out |-> o, cmd |-> c, args |-> <<>>] : l \in {None, NmL}, o \in {None, NmO}, c \in {None, NmC} }
Next == /\ ins.cmd # None
        /\ \/ (Len(ins.args) < NA /\ ins' = [ins EXCEPT !.args = Append(@, <<>>)])
           \/ (ins.args # <<>> /\ Len(ins.args[Len(ins.args)]) < AL
               /\ \E c \in Sigma : ins' = [ins EXCEPT !.args[Len(ins.args)] = Append(@, c)])
Spec == Init /\ [][Next]_ins
n == Len(ins.args)
Leads == IF WIDE THEN {<<>>, <<SP>>, <<TAB, SP>>} ELSE {<<>>, <<SP>>}
EqForms == IF WIDE THEN {<<0,0>>, <<1,1>>, <<0,1>>, <<2,0>>} ELSE {<<0,0>>, <<1,1>>}
Comments == IF WIDE THEN {<<>>, <<<<SP, QUOTE, 97>>>>, <<<<>>>>} ELSE {<<>>, <<<<SP, QUOTE, 97>>>>}
RChoices == { [lead |-> ld, labsep |-> ls, eqpre |-> ef[1], eqpost |-> ef[2], sep |-> [i \in 1..n |-> s],
              q |-> qv, rawtab |-> [i \in 1..n |-> rt], trail |-> tr, comment |-> cm] :
             ld \in Leads, ls \in (IF ins.label = None THEN {1} ELSE {1, 2}),
             ef \in (IF ins.out = None THEN {<<0,0>>} ELSE EqForms), s \in (IF n = 0 THEN {1} ELSE {1, 2}),
             qv \in [1..n -> BOOLEAN], rt \in (IF \E i \in 1..n : HasC(ins.args[i], TAB) THEN BOOLEAN ELSE {FALSE}),
             tr \in {0, 1}, cm \in Comments }
Renderings == { Render(ins, ch) : ch \in RChoices }
TypeOK == Valid(ins) /\ \A ch \in RChoices : ChoiceOK(ins, ch)
RoundTrip == \A r \in Renderings : Norm(ParseLine(r)) = Expected(ins)
\* composition into scripts: line i of a script gets instruction i, numbering 1-based, LF and CRLF
Other == <<SP, 122, SP, QUOTE, HASH, QUOTE>>         \*  z "#"
OtherN == [t |-> "script", label |-> <<>>, out |-> <<>>, cmd |-> <<<<122>>>>, args |-> <<<<HASH>>>>]
InScript == LET r == Render(ins, CHOOSE ch \in RChoices : TRUE) IN
   /\ NormText(ParseText(Other \o <<LF>> \o r \o <<CR, LF>> \o Other \o <<LF>>)) = [t |-> "ok", ins |-> <<OtherN, Expected(ins), OtherN>>]
   /\ NormText(ParseText(r \o <<LF, LF>> \o r \o <<LF>>)) = [t |-> "ok", ins |-> <<Expected(ins), [t |-> "empty"], Expected(ins)>>]
Emit == EMIT => PrintT(<<"CASE", ToJson([ins |-> ins, exp |-> Expected(ins), rs |-> SetToSeq(Renderings)])>>)
=============================================================================
