------------------------------- MODULE C05_MC -------------------------------
EXTENDS Func, Json
CONSTANT EMIT
EmitProg == (EMIT /\ phase = "run" /\ steps = 0) =>
   LET x == Ref IN PrintT(<<"PROG", ToJson([prog |-> prog, fnend |-> struct[0].end, skip |-> (x.fuel = 0 \/ x.dc), trace |-> x.trace, c |-> x.v.c, i |-> x.v.i, r |-> x.v.r])>>)
\* with calls in condition position only the reference is explored (the nested evaluation is not in the I-level model)
StopAtRun == phase = "build" \/ (phase = "run" /\ steps = 0)
=============================================================================
