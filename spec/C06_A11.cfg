CONSTANTS N = 11 EMIT = TRUE
SPECIFICATION Spec
INVARIANT GrammarSound
INVARIANT Agree
INVARIANT Truthiness
INVARIANT Emit
CHECK_DEADLOCK FALSE
