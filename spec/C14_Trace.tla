------------------------------- MODULE C14_Trace -------------------------------
(* Leg C of C14: random larger include trees (more files, deeper, wider, files in nested directories,
   relative / .. / absolute references) parsed by the real parse_file; the recorded instruction list
   (file, own line, kind) or error must equal Includes!Flatten of the recorded tree. *)
EXTENDS Includes, Json, IOUtils
Rec == ndJsonDeserialize(IOEnv.TRACE)
VARIABLE l
Check(k, r) == LET e == Flatten(r.tree, 1) IN
   IF r.got = e THEN TRUE ELSE PrintT(<<"VIOL", ToJson([rec |-> k, tree |-> r.tree, got |-> r.got, exp |-> e])>>)
Init == l = 1
Next == l <= Len(Rec) /\ Check(l, Rec[l]) /\ l' = l + 1
Spec == Init /\ [][Next]_l
Done == PrintT(<<"TRACE_DONE", TLCGet("stats").diameter - 1>>)
=============================================================================
