------------------------------- MODULE C16_Trace -------------------------------
(* Leg C of C16: random Unicode texts (all planes, white space, empty, needles taken from the text or
   longer than it, index pairs in and around [0, size]) through the real commands; every recorded
   (command, arguments, output) must match the Strings operator of that command in the unit the real
   strlen uses. *)
EXTENDS Strings, Json, IOUtils
Rec == ndJsonDeserialize(IOEnv.TRACE)
VARIABLE l
RECURSIVE Digits(_)
Digits(x) == IF x < 10 THEN <<48 + x>> ELSE Digits(x \div 10) \o <<48 + (x % 10)>>
NumText(x) == IF x < 0 THEN <<45>> \o Digits(0 - x) ELSE Digits(x)
T == <<116,114,117,101>>  F == <<102,97,108,115,101>>
Expected(r) == LET a == r.args IN
   CASE r.cmd = "strlen" -> Length(a[1]) [] r.cmd = "is_empty" -> IsEmpty(a[1])
     [] r.cmd = "indexof" -> IF a[2] = <<>> THEN AnyR ELSE IndexOf(a[1], a[2]) [] r.cmd = "last_indexof" -> IF a[2] = <<>> THEN AnyR ELSE LastIndexOf(a[1], a[2])
     [] r.cmd = "contains" -> Contains(a[1], a[2]) [] r.cmd = "starts_with" -> StartsWith(a[1], a[2]) [] r.cmd = "ends_with" -> EndsWith(a[1], a[2])
     [] r.cmd = "equals" -> Equals(a[1], a[2]) [] r.cmd = "concat" -> Val(Concat(a))
     [] r.cmd = "replace" -> IF a[2] = <<>> THEN Val(Interleave(a[1], a[3])) ELSE Val(Replace(a[1], a[2], a[3]))
     [] r.cmd = "split" -> IF a[2] = <<>> THEN AnyR ELSE [k |-> "list", v |-> Split(a[1], a[2], <<>>)]
     [] r.cmd = "trim" -> Val(TrimR(TrimL(a[1]))) [] r.cmd = "trim_start" -> Val(TrimL(a[1])) [] r.cmd = "trim_end" -> Val(TrimR(a[1]))
     [] r.cmd = "uppercase" -> Val(Upper(a[1])) [] r.cmd = "lowercase" -> Val(Lower(a[1]))
     [] r.cmd = "substring" -> IF Len(r.ints) = 0 THEN Val(a[1]) ELSE IF Len(r.ints) = 1 THEN Substring1(a[1], r.ints[1]) ELSE Substring2(a[1], r.ints[1], r.ints[2])
Matches(e, r) == CASE e.k = "any" -> TRUE
   [] e.k = "val" -> (r.has_out /\ r.out = e.v) \/ (e.v = <<>> /\ ~r.has_out)
   [] e.k = "none" -> ~r.has_out
   [] e.k = "err" -> r.has_out /\ r.out = F
   [] e.k = "num" -> r.has_out /\ r.out = NumText(e.n)
   [] e.k = "bool" -> r.has_out /\ r.out = (IF e.b THEN T ELSE F)
   [] e.k = "list" -> r.is_list /\ r.list = e.v
Check(k, r) == LET e == Expected(r) IN
   IF r.err = "" /\ Matches(e, r) THEN TRUE ELSE PrintT(<<"VIOL", ToJson([rec |-> k, cmd |-> r.cmd, args |-> r.args, ints |-> r.ints, err |-> r.err, out |-> r.out, has_out |-> r.has_out, exp |-> e])>>)
Init == l = 1
Next == l <= Len(Rec) /\ Check(l, Rec[l]) /\ l' = l + 1
Spec == Init /\ [][Next]_l
Done == PrintT(<<"TRACE_DONE", TLCGet("stats").diameter - 1>>)
=============================================================================
