------------------------------- MODULE Parser -------------------------------
(* I-level model of duckscript/src/parser.rs.
   Text is a sequence of Unicode code points (naturals), so that the same operators are
   (a) enumerated over a small class alphabet by TLC and (b) evaluated on arbitrary recorded
   text in trace validation.  One recursion step of Loop = one iteration of the character loop
   of parse_next_value; the seven parameters after the text are the function's flags
   and mutable locals.  Indexes are 0-based exactly as in the code. *)
EXTENDS Naturals, Sequences, TLC, FiniteSets
SP == 32  QUOTE == 34  BS == 92  HASH == 35  EQ == 61  COLON == 58  BANG == 33  DOLLAR == 36  LBRACE == 123
LF == 10  CR == 13  TAB == 9
\* Unicode White_Space = what Rust's str::trim removes
IsWS(c) == c \in {9,10,11,12,13,32,133,160,5760,8232,8233,8239,8287,12288} \/ (c >= 8192 /\ c <= 8202)
NoVal == [has |-> FALSE, val |-> <<>>]
Some(v) == [has |-> TRUE, val |-> v]
Err(k) == [err |-> k]
IsErr(r) == "err" \in DOMAIN r
ErrKinds == {"ControlWithoutValidValue","InvalidControlLocation","MissingEndQuotes","InvalidQuotesLocation",
             "EmptyLabel","PreProcessNoCommandFound","UnknownPreProcessorCommand"}

\* ---- parse_next_value (parser.rs:259-380): aq allow_quotes, ac allow_control, soe search_for_equals, cac control_as_char
RECURSIVE Loop(_,_,_,_,_,_,_,_,_,_,_)
Loop(cs, i, arg, inArg, q, ctl, vp, aq, ac, soe, cac) ==
  IF i >= Len(cs) THEN [idx |-> i, arg |-> arg, inArg |-> inArg, q |-> q, ctl |-> ctl, fe |-> FALSE]
  ELSE LET c == cs[i+1]  j == i+1 IN
   IF inArg THEN
     IF ctl THEN
       IF vp THEN (IF c = LBRACE THEN Loop(cs, j, arg \o <<BS, DOLLAR, LBRACE>>, TRUE, q, FALSE, FALSE, aq, ac, soe, cac)
                   ELSE Err("ControlWithoutValidValue"))
       ELSE IF c = BS \/ c = QUOTE THEN Loop(cs, j, Append(arg, c), TRUE, q, FALSE, vp, aq, ac, soe, cac)
       ELSE IF c = 110 THEN Loop(cs, j, Append(arg, LF), TRUE, q, FALSE, vp, aq, ac, soe, cac)
       ELSE IF c = 114 THEN Loop(cs, j, Append(arg, CR), TRUE, q, FALSE, vp, aq, ac, soe, cac)
       ELSE IF c = 116 THEN Loop(cs, j, Append(arg, TAB), TRUE, q, FALSE, vp, aq, ac, soe, cac)
       ELSE IF c = DOLLAR THEN Loop(cs, j, arg, TRUE, q, TRUE, TRUE, aq, ac, soe, cac)
       ELSE Err("ControlWithoutValidValue")
     ELSE IF c = BS THEN
       IF cac THEN Loop(cs, j, Append(arg, c), TRUE, q, FALSE, vp, aq, ac, soe, cac)
       ELSE IF ac THEN Loop(cs, j, arg, TRUE, q, TRUE, FALSE, aq, ac, soe, cac)
       ELSE Err("InvalidControlLocation")
     ELSE IF q /\ c = QUOTE THEN [idx |-> j, arg |-> arg, inArg |-> TRUE, q |-> q, ctl |-> FALSE, fe |-> TRUE]
     ELSE IF ~q /\ (c = SP \/ c = HASH \/ (soe /\ c = EQ)) THEN
       [idx |-> IF c = HASH THEN Len(cs) ELSE j - 1, arg |-> arg, inArg |-> TRUE, q |-> q, ctl |-> FALSE, fe |-> TRUE]
     ELSE Loop(cs, j, Append(arg, c), TRUE, q, FALSE, vp, aq, ac, soe, cac)
   ELSE IF c = HASH THEN [idx |-> Len(cs), arg |-> arg, inArg |-> FALSE, q |-> q, ctl |-> ctl, fe |-> FALSE]
   ELSE IF c # SP THEN
     IF c = QUOTE THEN (IF aq THEN Loop(cs, j, arg, TRUE, TRUE, ctl, vp, aq, ac, soe, cac) ELSE Err("InvalidQuotesLocation"))
     ELSE IF c = BS THEN
       IF cac THEN Loop(cs, j, Append(arg, c), TRUE, q, ctl, vp, aq, ac, soe, cac)
       ELSE IF ac THEN Loop(cs, j, arg, TRUE, q, TRUE, vp, aq, ac, soe, cac)
       ELSE Err("InvalidControlLocation")
     ELSE Loop(cs, j, Append(arg, c), TRUE, q, ctl, vp, aq, ac, soe, cac)
   ELSE Loop(cs, j, arg, inArg, q, ctl, vp, aq, ac, soe, cac)

\* result: Err(k) or [idx, v] with v = NoVal / Some(seq)
PNV(cs, start, aq, ac, soe, cac) ==
  IF start >= Len(cs) THEN [idx |-> start, v |-> NoVal]
  ELSE LET r == Loop(cs, start, <<>>, FALSE, FALSE, FALSE, FALSE, aq, ac, soe, cac) IN
    IF IsErr(r) THEN r
    ELSE IF r.inArg /\ ~r.fe /\ (r.ctl \/ r.q) THEN
           (IF r.ctl THEN Err("ControlWithoutValidValue") ELSE Err("MissingEndQuotes"))
    ELSE IF r.arg = <<>> THEN (IF r.q THEN [idx |-> r.idx, v |-> Some(<<>>)] ELSE [idx |-> r.idx, v |-> NoVal])
    ELSE [idx |-> r.idx, v |-> Some(r.arg)]

\* parse_arguments_with_options; cac = TRUE is reparse_arguments (used by %{} spreading)
RECURSIVE Args(_,_,_,_)
Args(cs, i, cac, acc) ==
  LET r == PNV(cs, i, TRUE, ~cac, FALSE, cac) IN
  IF IsErr(r) THEN r
  ELSE IF ~r.v.has THEN [args |-> acc]
  ELSE Args(cs, r.idx, cac, Append(acc, r.v.val))

\* find_label: returns Err or [idx, label]
RECURSIVE FindLabel(_,_)
FindLabel(cs, i) ==
  IF i >= Len(cs) THEN [idx |-> i, label |-> NoVal]
  ELSE LET c == cs[i+1] IN
    IF c = COLON THEN
      LET r == PNV(cs, i+1, FALSE, FALSE, FALSE, FALSE) IN
      IF IsErr(r) THEN r
      ELSE IF r.v.has THEN (IF r.v.val = <<>> THEN Err("EmptyLabel") ELSE [idx |-> r.idx, label |-> Some(<<COLON>> \o r.v.val)])
      ELSE [idx |-> r.idx, label |-> NoVal]
    ELSE IF c # SP THEN [idx |-> i, label |-> NoVal]
    ELSE FindLabel(cs, i+1)

RECURSIVE SkipEq(_,_)
SkipEq(cs, i) == IF i >= Len(cs) THEN [idx |-> i, eq |-> FALSE]
                 ELSE IF cs[i+1] # SP THEN [idx |-> i+1, eq |-> cs[i+1] = EQ]
                 ELSE SkipEq(cs, i+1)

\* find_output_and_command
FindOutCmd(cs, start) ==
  LET r == PNV(cs, start, FALSE, FALSE, TRUE, FALSE) IN
  IF IsErr(r) THEN r
  ELSE IF ~r.v.has THEN [idx |-> r.idx, out |-> NoVal, cmd |-> NoVal]
  ELSE LET s == SkipEq(cs, r.idx) IN
    IF s.eq THEN
      LET r2 == PNV(cs, s.idx, FALSE, FALSE, FALSE, FALSE) IN
      IF IsErr(r2) THEN r2
      ELSE IF ~r2.v.has THEN [idx |-> s.idx, out |-> r.v, cmd |-> NoVal]
      ELSE [idx |-> r2.idx, out |-> r.v, cmd |-> r2.v]
    ELSE [idx |-> r.idx, out |-> NoVal, cmd |-> r.v]

Empty == [t |-> "empty"]
\* parse_command_line
CommandLine(cs) ==
  LET l == FindLabel(cs, 0) IN
  IF IsErr(l) THEN l ELSE
  LET oc == FindOutCmd(cs, l.idx) IN
  IF IsErr(oc) THEN oc ELSE
  LET a == Args(cs, oc.idx, FALSE, <<>>) IN
  IF IsErr(a) THEN a ELSE
  IF ~l.label.has /\ ~oc.out.has /\ ~oc.cmd.has THEN Empty
  ELSE [t |-> "script", label |-> l.label, out |-> oc.out, cmd |-> oc.cmd, args |-> a.args]

\* parse_pre_process_line
RECURSIVE PreCmd(_,_,_)
PreCmd(cs, i, cmd) == IF i >= Len(cs) THEN [idx |-> i, cmd |-> cmd]
   ELSE IF cs[i+1] = SP THEN (IF cmd # <<>> THEN [idx |-> i+1, cmd |-> cmd] ELSE PreCmd(cs, i+1, cmd))
   ELSE PreCmd(cs, i+1, Append(cmd, cs[i+1]))
PRINT == <<112,114,105,110,116>>
INCLUDE == <<105,110,99,108,117,100,101,95,102,105,108,101,115>>      \* "include_files"
PreLine(cs) ==
  LET p == PreCmd(cs, 1, <<>>) IN
  IF p.cmd = <<>> THEN Err("PreProcessNoCommandFound")
  ELSE LET a == Args(cs, p.idx, FALSE, <<>>) IN
    IF IsErr(a) THEN a
    ELSE IF p.cmd = PRINT \/ p.cmd = INCLUDE THEN [t |-> "pre", cmd |-> p.cmd, args |-> a.args]
    ELSE Err("UnknownPreProcessorCommand")   \* preprocessor::run (include expansion itself is module Includes)

RECURSIVE TrimL(_), TrimR(_)
TrimL(cs) == IF cs # <<>> /\ IsWS(cs[1]) THEN TrimL(Tail(cs)) ELSE cs
TrimR(cs) == IF cs # <<>> /\ IsWS(cs[Len(cs)]) THEN TrimR(SubSeq(cs, 1, Len(cs)-1)) ELSE cs
Trim(cs) == TrimR(TrimL(cs))
\* parse_line
ParseLine(raw) ==
  LET cs == Trim(raw) IN
  IF cs = <<>> \/ cs[1] = HASH THEN Empty
  ELSE IF cs[1] = BANG THEN PreLine(cs)
  ELSE CommandLine(cs)

\* str::lines(): split at LF (a CR before the LF is dropped; Trim removes it anyway); no line after a final LF
RECURSIVE SplitLines(_,_,_)
SplitLines(cs, i, cur) ==
  IF i > Len(cs) THEN (IF cur = <<>> /\ (Len(cs) = 0 \/ cs[Len(cs)] = LF) THEN <<>> ELSE <<cur>>)
  ELSE IF cs[i] = LF THEN <<cur>> \o SplitLines(cs, i+1, <<>>)
  ELSE SplitLines(cs, i+1, Append(cur, cs[i]))
Lines(cs) == SplitLines(cs, 1, <<>>)
\* parse_lines without include expansion: [ok |-> seq of per-line results] or [err |-> kind, line |-> 1-based]
RECURSIVE ParseSeq(_,_,_)
ParseSeq(ls, i, acc) ==
  IF i > Len(ls) THEN [ok |-> acc]
  ELSE LET r == ParseLine(ls[i]) IN
       IF IsErr(r) THEN [err |-> r.err, line |-> i] ELSE ParseSeq(ls, i+1, Append(acc, r))
ParseText(cs) == ParseSeq(Lines(cs), 1, <<>>)

\* normalised form shared with the harness' JSON rendering of real instructions
Opt(v) == IF v.has THEN <<v.val>> ELSE <<>>
Norm(r) == IF IsErr(r) THEN [t |-> "err", k |-> r.err]
           ELSE IF r.t = "empty" THEN [t |-> "empty"]
           ELSE IF r.t = "pre" THEN [t |-> "pre", cmd |-> r.cmd, args |-> r.args]
           ELSE [t |-> "script", label |-> Opt(r.label), out |-> Opt(r.out), cmd |-> Opt(r.cmd), args |-> r.args]
NormText(r) == IF "err" \in DOMAIN r THEN [t |-> "err", k |-> r.err, line |-> r.line]
               ELSE [t |-> "ok", ins |-> [i \in 1..Len(r.ok) |-> Norm(r.ok[i])]]
=============================================================================
