------------------------------- MODULE Strings -------------------------------
(* C16.  R-level: the text / comparison / arithmetic commands as plain string operations on sequences
   of code points.  Positions and lengths are in one unit: Unit = "byte" (UTF-8 width of each code
   point) or "char"; the harness reads the unit off the real strlen on a multi-byte probe and then
   every index command must agree with it.  Results are descriptors: [k |-> "val", v |-> text],
   [k |-> "none"] (no output), [k |-> "err"] (the error result), [k |-> "num", n |-> integer],
   [k |-> "bool", b], [k |-> "any"] (a corner the documentation leaves open: not compared),
   [k |-> "list", v |-> seq of texts] (an array handle holding them). *)
EXTENDS Integers, Sequences, TLC, FiniteSets
CONSTANT Unit
Width(c) == IF c < 128 THEN 1 ELSE IF c < 2048 THEN 2 ELSE IF c < 65536 THEN 3 ELSE 4
W(c) == IF Unit = "byte" THEN Width(c) ELSE 1
RECURSIVE Size(_)
Size(s) == IF s = <<>> THEN 0 ELSE W(s[1]) + Size(Tail(s))
\* offset (in units) of the element at position i (1-based); Offs(s, Len(s)+1) = Size(s)
Offs(s, i) == Size(SubSeq(s, 1, i - 1))
\* the position whose offset is o, or 0 when o is not on a boundary
PosAt(s, o) == IF \E i \in 1..(Len(s)+1) : Offs(s, i) = o THEN CHOOSE i \in 1..(Len(s)+1) : Offs(s, i) = o ELSE 0
Val(v) == [k |-> "val", v |-> v]
None == [k |-> "none"]
ErrR == [k |-> "err"]
Num(x) == [k |-> "num", n |-> x]
Bool(b) == [k |-> "bool", b |-> b]
AnyR == [k |-> "any"]
MatchAt(s, t, i) == i + Len(t) - 1 <= Len(s) /\ SubSeq(s, i, i + Len(t) - 1) = t
Occ(s, t) == {i \in 1..(Len(s) + 1) : MatchAt(s, t, i)}
MinOf(S) == CHOOSE x \in S : \A y \in S : x <= y
MaxOf(S) == CHOOSE x \in S : \A y \in S : x >= y
Length(s) == Num(Size(s))
IndexOf(s, t) == IF Occ(s, t) = {} THEN None ELSE Num(Offs(s, MinOf(Occ(s, t))))
LastIndexOf(s, t) == IF Occ(s, t) = {} THEN None ELSE Num(Offs(s, MaxOf(Occ(s, t))))
Contains(s, t) == Bool(Occ(s, t) # {})
StartsWith(s, t) == Bool(MatchAt(s, t, 1))
EndsWith(s, t) == Bool(Len(t) <= Len(s) /\ SubSeq(s, Len(s) - Len(t) + 1, Len(s)) = t)
Equals(s, t) == Bool(s = t)
IsEmpty(s) == Bool(s = <<>>)
\* substring s a b : offsets a <= b inside the text and on boundaries, else the error result.
\* An offset equal to the length is rejected by the code although it denotes a valid position: open corner.
Slice(s, a, b) == LET i == PosAt(s, a)  j == PosAt(s, b) IN IF i = 0 \/ j = 0 \/ a > b THEN ErrR ELSE Val(SubSeq(s, i, j - 1))
Substring2(s, a, b) == IF a < 0 \/ b < 0 \/ a > b \/ a > Size(s) \/ b > Size(s) THEN ErrR
                       ELSE IF b = Size(s) \/ a = Size(s) THEN AnyR ELSE Slice(s, a, b)
\* one index: >= 0 start to the end; < 0: drop that many units from the end
Substring1(s, a) == IF a >= 0 THEN (IF a > Size(s) THEN ErrR ELSE IF a = Size(s) THEN AnyR ELSE Slice(s, a, Size(s)))
                    ELSE (IF Size(s) + a < 0 THEN ErrR ELSE Slice(s, 0, Size(s) + a))
RECURSIVE Concat(_)
Concat(ss) == IF ss = <<>> THEN <<>> ELSE ss[1] \o Concat(Tail(ss))
\* replace all non-overlapping occurrences left to right (t non-empty)
\* an empty pattern occurs at every boundary between code points (and at both ends): the replacement is inserted
\* there - the reading every plain-string library gives ("abc" / "" / "-" = "-a-b-c-")
RECURSIVE Interleave(_,_)
Interleave(s, u) == IF s = <<>> THEN u ELSE u \o <<s[1]>> \o Interleave(Tail(s), u)
RECURSIVE Replace(_,_,_)
Replace(s, t, u) == IF s = <<>> THEN <<>> ELSE IF MatchAt(s, t, 1) THEN u \o Replace(SubSeq(s, Len(t) + 1, Len(s)), t, u) ELSE <<s[1]>> \o Replace(Tail(s), t, u)
\* split at every non-overlapping occurrence of sep (non-empty): always at least one piece
RECURSIVE Split(_,_,_)
Split(s, sep, cur) == IF s = <<>> THEN <<cur>> ELSE IF MatchAt(s, sep, 1) THEN <<cur>> \o Split(SubSeq(s, Len(sep) + 1, Len(s)), sep, <<>>) ELSE Split(Tail(s), sep, Append(cur, s[1]))
RECURSIVE Join(_,_)
Join(ps, sep) == IF ps = <<>> THEN <<>> ELSE IF Len(ps) = 1 THEN ps[1] ELSE ps[1] \o sep \o Join(Tail(ps), sep)
IsWS(c) == c \in {9,10,11,12,13,32,133,160,5760,8232,8233,8239,8287,12288} \/ (c >= 8192 /\ c <= 8202)
RECURSIVE TrimL(_), TrimR(_)
TrimL(s) == IF s # <<>> /\ IsWS(s[1]) THEN TrimL(Tail(s)) ELSE s
TrimR(s) == IF s # <<>> /\ IsWS(s[Len(s)]) THEN TrimR(SubSeq(s, 1, Len(s)-1)) ELSE s
Up(c) == IF c >= 97 /\ c <= 122 THEN c - 32 ELSE IF c = 233 THEN 201 ELSE c           \* ASCII + é/É; others unchanged in the model alphabet
Low(c) == IF c >= 65 /\ c <= 90 THEN c + 32 ELSE IF c = 201 THEN 233 ELSE c
Upper(s) == [i \in 1..Len(s) |-> Up(s[i])]
Lower(s) == [i \in 1..Len(s) |-> Low(s[i])]
\* relations the property names
PrefixRelation(s, t) == LET x == IndexOf(s, t) IN x.k = "num" =>
      LET p == Slice(s, 0, x.n) IN p.k = "val" /\ LET w == p.v \o t IN Len(w) <= Len(s) /\ SubSeq(s, 1, Len(w)) = w
SplitJoin(s, sep) == sep # <<>> => Join(Split(s, sep, <<>>), sep) = s
\* numbers as scaled integers (thousandths)
LessThan(a, b) == Bool(a < b)
GreaterThan(a, b) == Bool(a > b)
\* integer expressions: [op, l, r] trees with leaves [op |-> "n", v]
RECURSIVE Calc(_)
Calc(e) == CASE e.op = "n" -> e.v [] e.op = "+" -> Calc(e.l) + Calc(e.r) [] e.op = "-" -> Calc(e.l) - Calc(e.r) [] e.op = "*" -> Calc(e.l) * Calc(e.r)
RangeList(a, b) == IF a > b THEN ErrR ELSE [k |-> "nums", v |-> [j \in 1..(b - a) |-> a + j - 1]]
=============================================================================
