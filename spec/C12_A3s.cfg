CONSTANTS MaxH = 3 MaxSize = 1
SPECIFICATION Spec
VIEW View
INVARIANT FailedOpChangesNothing
INVARIANT IdsNeverReused
INVARIANT Emit
CHECK_DEADLOCK FALSE
