------------------------------- MODULE Cli -------------------------------
(* C20.  R-level: what the duck executable must report, as a function of the invocation form and of what
   the library decides for the script.
   A script is a sequence of statements over kinds
     echo (prints, continues) | crash (assert_fail) | exit3 | exit0 | badquote (does not parse) | unknowncmd
   the first statement may carry a label and an output variable, each spelled in lower case or with an
   upper-case letter; a command name may be spelled with an upper-case letter (then it is unknown at run
   time).  Every script starts with a marker statement that writes a file: lint must not execute it.
   Outcome = what run_script / run_script_file decide; Status = the CLI's exit status, whether an
   "Error:" line is printed, and whether the script ran at all. *)
EXTENDS Naturals, Sequences, TLC, FiniteSets
\* statements without a command (legal: `name =` unsets the variable, `:label` only defines the label; "none" is a
\* line that has only the first statement's label / output variable, or is blank): they run and continue, and
\* lint still looks at their label and output variable ("OUT", "LBL" carry an upper-case letter)
\* "pre": a pre-processor line (`!print pp`, printed while the text is parsed): not an instruction with names, and neither
\* running nor linting stops at it
NoCmdKinds == {"none", "out", "OUT", "OUTN", "lbl", "LBL", "LBLN", "pre"}      \* OUTN / LBLN: the upper-case letter is not ASCII
\* exit256: a non-zero exit value whose low eight bits are zero - still a failed run
\* xecho: `exec echo child` - a child process writing to the inherited standard output, between the script's own lines
Kinds == {"echo", "xecho", "crash", "exit3", "exit256", "exit0", "badquote", "unknowncmd", "ECHO"} \cup NoCmdKinds
FirstKinds == Kinds \ {"out", "OUT", "OUTN", "lbl", "LBL", "LBLN", "pre"}    \* the first statement takes its label / output from s.label / s.out
Terminates(k) == k \in {"crash", "exit3", "exit256", "exit0", "unknowncmd", "ECHO"}
RECURSIVE RunFrom(_,_)
RunFrom(st, i) == IF i > Len(st) THEN "ok"
                  ELSE CASE st[i] \in {"echo", "xecho"} \cup NoCmdKinds -> RunFrom(st, i+1) [] st[i] \in {"crash", "unknowncmd", "ECHO"} -> "crash"
                         [] st[i] \in {"exit3", "exit256"} -> "exit-nonzero" [] st[i] = "exit0" -> "exit-zero"
Outcome(s) == IF s.missing THEN "missing-file"
              ELSE IF \E i \in 1..Len(s.st) : s.st[i] = "badquote" THEN "parse-error" ELSE RunFrom(s.st, 1)
\* number of echo lines printed before the run ends
RECURSIVE Echoes(_,_)
Echoes(st, i) == IF i > Len(st) \/ Terminates(st[i]) THEN 0 ELSE (IF st[i] = "echo" THEN 1 ELSE 0) + Echoes(st, i+1)
Printed(s) == IF Outcome(s) \in {"parse-error", "missing-file"} THEN 0 ELSE Echoes(s.st, 1)
\* the lines on standard output, in program order: the script's own ("hello") and the child processes' ("child")
\* (an exec whose line has an output variable - only the first statement can - captures the child's output instead)
RECURSIVE OutLines(_,_)
OutLines(s, i) == IF i > Len(s.st) \/ Terminates(s.st[i]) THEN <<>>
                  ELSE (IF s.st[i] = "echo" THEN <<"hello">> ELSE IF s.st[i] = "xecho" /\ ~(i = 1 /\ s.out # "none") THEN <<"child">> ELSE <<>>) \o OutLines(s, i+1)
PrintedLines(s) == IF Outcome(s) \in {"parse-error", "missing-file"} THEN <<>> ELSE OutLines(s, 1)
AllLower(s) == s.label # "Upper" /\ s.out # "Upper" /\ \A i \in 1..Len(s.st) : s.st[i] \notin {"ECHO", "OUT", "LBL", "OUTN", "LBLN"}
RunForms == {"file", "-e", "--eval"}
LintForms == {"-l", "--lint"}
InfoForms == {"--version", "--help", "-h"}
\* `!print pp` lines print while the text is parsed - once each, before anything runs, up to the first line that does not parse
RECURSIVE PreBefore(_,_)
PreBefore(st, i) == IF i > Len(st) \/ st[i] = "badquote" THEN 0 ELSE (IF st[i] = "pre" THEN 1 ELSE 0) + PreBefore(st, i+1)
ParsePrints(s) == IF s.missing THEN 0 ELSE PreBefore(s.st, 1)
\* [status0: exit status is 0, errline: an "Error:" line is printed, ran: the marker statement was executed, echoes]
Status(form, s) ==
  CASE form \in RunForms -> LET o == Outcome(s) IN [status0 |-> o \in {"ok", "exit-zero"}, errline |-> o \notin {"ok", "exit-zero"},
                                                   ran |-> o \notin {"parse-error", "missing-file"}, echoes |-> Printed(s), lines |-> PrintedLines(s), pp |-> ParsePrints(s)]
    [] form \in LintForms -> LET good == Outcome(s) \notin {"parse-error", "missing-file"} /\ AllLower(s) IN
                             [status0 |-> good, errline |-> ~good, ran |-> FALSE, echoes |-> 0, lines |-> <<>>, pp |-> ParsePrints(s)]
    [] form \in InfoForms -> [status0 |-> TRUE, errline |-> FALSE, ran |-> FALSE, echoes |-> 0, lines |-> <<>>, pp |-> 0]
=============================================================================
