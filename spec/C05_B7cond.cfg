CONSTANTS MaxLines = 7 MaxDepth = 3 C0 = 1 Budget = 60 Scoped = {FALSE, TRUE} CondCalls = TRUE EMIT = TRUE
SPECIFICATION Spec
INVARIANT Refines
INVARIANT EmitProg
CONSTRAINT StopAtRun
CHECK_DEADLOCK FALSE
