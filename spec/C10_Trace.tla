------------------------------- MODULE C10_Trace -------------------------------
(* Leg C of C10: long random item sequences (up to 30 items: failing commands in every context,
   exit_on_error toggled, observations) executed by the real SDK from text and from file; the
   recorded observations and outcome must equal OnError!Exec of the recorded items. *)
EXTENDS OnError, Json, IOUtils
Rec == ndJsonDeserialize(IOEnv.TRACE)
VARIABLE l
Check(k, r) == LET e == Exec(r.items) IN
   IF r.got = e THEN TRUE ELSE PrintT(<<"VIOL", ToJson([rec |-> k, mode |-> r.mode, items |-> r.items, got |-> r.got, exp |-> e])>>)
Init == l = 1
Next == l <= Len(Rec) /\ Check(l, Rec[l]) /\ l' = l + 1
Spec == Init /\ [][Next]_l
Done == PrintT(<<"TRACE_DONE", TLCGet("stats").diameter - 1>>)
=============================================================================
