CONSTANTS MaxLines = 0 MaxDepth = 0 C0 = 3 Budget = 4000 Spell = "all" RichCond = TRUE
SPECIFICATION TSpec
POSTCONDITION Done
CHECK_DEADLOCK FALSE
