//! C17: encodings round-trip; TLC is the independent oracle (Codec.tla).
use crate::c02::{lit_arg as quote_arg, make_writable};
use crate::common::*;
use duckscript::types::runtime::{Context, StateValue};
use serde_json::{json, Map, Value};

fn run1(ctx: &Context, script: &str) -> Result<Context, String> {
    match run_guarded(script, ctx.clone(), Some(quiet_env())) {
        Err(p) => Err(format!("panic {}", p)),
        Ok(Err(e)) => Err(format!("run failed {}", e)),
        Ok(Ok(c)) => Ok(c),
    }
}
fn bytes_of(c: &Context, var: &str) -> Option<Vec<u8>> {
    let h = c.variables.get(var)?;
    match c.state.get("handles") {
        Some(StateValue::SubState(m)) => match m.get(h) { Some(StateValue::ByteArray(b)) => Some(b.clone()), _ => None },
        _ => None,
    }
}
/// uniform node [t, v, items] -> JSON value
fn to_json(n: &Value) -> Value {
    match n["t"].as_str().unwrap() {
        "str" => json!(n["v"].as_str().unwrap()),
        "num" => json!(n["v"].as_str().unwrap().parse::<i64>().unwrap()),
        "bool" => json!(n["v"] == "true"),
        "null" => Value::Null,
        "arr" => Value::Array(n["items"].as_array().unwrap().iter().map(|e| to_json(&e["val"])).collect()),
        _ => { let mut m = Map::new(); for e in n["items"].as_array().unwrap() { m.insert(e["key"].as_str().unwrap().to_string(), to_json(&e["val"])); } Value::Object(m) }
    }
}

pub fn replay(args: &[String]) {
    let base = sdk_context();
    let mut s = Summary::new();
    let (mut texts, mut ints, mut trees, mut maps) = (0u64, 0u64, 0u64, 0u64);
    let mut samples = vec![];
    tlc_lines(&args[0], "TEXT", |rec| {
        texts += 1;
        let text = uncps(&rec["text"]);
        let want_bytes: Vec<u8> = rec["bytes"].as_array().unwrap().iter().map(|x| x.as_u64().unwrap() as u8).collect();
        let b64 = uncps(&rec["b64"]);
        let script = format!("h = string_to_bytes {}\ne = base64_encode ${{h}}\nback = bytes_to_string ${{h}}\nh2 = base64_decode {}\nback2 = bytes_to_string ${{h2}}\n", quote_arg(&text), quote_arg(&b64));
        match run1(&base, &script) {
            Err(e) => s.mismatch(json!({"kind": "text", "text": text, "why": e})),
            Ok(c) => {
                let g = |k: &str| c.variables.get(k).cloned().unwrap_or_default();
                let mut why = vec![];
                if let Some(b) = bytes_of(&c, "h") { if b != want_bytes { why.push(format!("string_to_bytes {:?} expected {:?}", b, want_bytes)); } }
                if g("e") != b64 { why.push(format!("base64_encode {:?} expected {:?}", g("e"), b64)); }
                if g("back") != text && !(text.is_empty() && !c.variables.contains_key("back")) { why.push(format!("bytes_to_string(string_to_bytes) {:?}", g("back"))); }
                if let Some(b) = bytes_of(&c, "h2") { if b != want_bytes { why.push(format!("base64_decode {:?} expected {:?}", b, want_bytes)); } }
                if g("back2") != text && !(text.is_empty() && !c.variables.contains_key("back2")) { why.push(format!("base64 round trip {:?}", g("back2"))); }
                if !why.is_empty() { s.mismatch(json!({"kind": "text", "text": text, "why": why.join("; ")})); }
                if samples.len() < 2 && texts % 97 == 0 { samples.push(json!({"text": text, "bytes": want_bytes, "base64": b64})); }
            }
        }
    });
    tlc_lines(&args[0], "HEX", |rec| {
        let mut all: Vec<(String, String)> = rec.as_array().unwrap().iter().map(|c| (c["n"].to_string(), uncps(&c["hex"]))).collect();
        // the ends of the supported range, as digit strings (TLC integers are 32-bit)
        all.push(("4294967296".into(), "0x100000000".into()));
        all.push(("9223372036854775808".into(), "0x8000000000000000".into()));
        all.push(("18446744073709551615".into(), "0xffffffffffffffff".into()));
        for (n, hex) in all {
            ints += 1;
            match run1(&base, &format!("e = hex_encode {}\nd = hex_decode {}\nrt = hex_decode ${{e}}\n", n, hex)) {
                Err(e) => s.mismatch(json!({"kind": "hex", "n": n, "why": e})),
                Ok(c) => { let g = |k: &str| c.variables.get(k).cloned().unwrap_or_default();
                    if g("e") != hex || g("d") != n || g("rt") != n { s.mismatch(json!({"kind": "hex", "n": n, "why": format!("hex_encode {:?} (expected {}), hex_decode {:?}, round trip {:?}", g("e"), hex, g("d"), g("rt"))})); } }
            }
        }
    });
    tlc_lines(&args[0], "HEXBIG", |rec| {
        for c in rec.as_array().unwrap() {
            let n: String = c["n"].as_array().unwrap().iter().map(|d| d.to_string()).collect();
            let hex = uncps(&c["hex"]);
            ints += 1;
            match run1(&base, &format!("e = hex_encode {}\nd = hex_decode {}\nrt = hex_decode ${{e}}\n", n, hex)) {
                Err(e) => s.mismatch(json!({"kind": "hex", "n": n, "why": e})),
                Ok(c) => { let g = |k: &str| c.variables.get(k).cloned().unwrap_or_default();
                    if g("e") != hex || g("d") != n || g("rt") != n { s.mismatch(json!({"kind": "hex", "n": n, "why": format!("hex_encode {:?} (expected {}), hex_decode {:?}, round trip {:?}", g("e"), hex, g("d"), g("rt"))})); } }
            }
        }
    });
    tlc_lines(&args[0], "JSON", |rec| {
        if rec["tree"]["t"] == "null" { return; }   // a null root: nothing is left to encode (open corner)
        trees += 1;
        let doc = to_json(&rec["tree"]);
        let want = to_json(&rec["norm"]);
        let text = serde_json::to_string(&doc).unwrap();
        match run1(&base, &format!("h = json_parse --collection {}\no = json_encode --collection ${{h}}\n", quote_arg(&text))) {
            Err(e) => s.mismatch(json!({"kind": "json", "doc": text, "why": e})),
            Ok(c) => {
                let o = c.variables.get("o").cloned();
                let got: Option<Value> = o.as_deref().and_then(|t| serde_json::from_str(t).ok());
                // a scalar root comes back as the bare text
                let same = got.as_ref().map(|g| *g == want).unwrap_or(false);
                let bare = match &want { Value::String(w) => o.as_deref() == Some(w.as_str()), _ => false };
                let ok = same || bare;
                if !ok { s.mismatch(json!({"kind": "json", "doc": text, "why": format!("json_encode(json_parse) = {:?}, expected {}", o, want)})); }
                if samples.len() < 4 && trees % 61 == 0 { samples.push(json!({"document": text, "normalised": want})); }
            }
        }
    });
    tlc_lines(&args[0], "MAP", |rec| {
        maps += 1;
        let mut script = String::from("m = map\n");
        let mut want = std::collections::BTreeMap::new();
        for e in rec["map"].as_array().unwrap() {
            let (k, v) = (e["key"].as_str().unwrap(), e["val"].as_str().unwrap());
            script.push_str(&format!("map_put ${{m}} {} {}\n", quote_arg(k), quote_arg(v)));
            want.insert(k.to_string(), v.to_string());
        }
        script.push_str("t = map_to_properties ${m}\nm2 = map\nr = map_load_properties ${m2} ${t}\n");
        match run1(&base, &script) {
            Err(e) => s.mismatch(json!({"kind": "properties", "map": want, "why": e})),
            Ok(c) => {
                let h = c.variables.get("m2").cloned().unwrap_or_default();
                let got = match crate::c12::read_coll(&c, &h) { Ok(crate::c12::Coll::Map(m)) => m, x => { s.mismatch(json!({"kind": "properties", "map": want, "why": format!("{:?}", x)})); return; } };
                if got != want {
                    let latin1 = want.iter().any(|(k, v)| k.chars().chain(v.chars()).any(|ch| (0x80..=0xff).contains(&(ch as u32))));
                    s.mismatch(json!({"kind": "properties", "map": want, "latin1": latin1, "why": format!("read back {:?}; text {:?}; load result {:?}", got, c.variables.get("t"), c.variables.get("r"))}));
                }
            }
        }
    });
    // the recorded finding: characters U+0080..U+00FF (probed explicitly so that the finding stays visible)
    {
        let script = "m = map\nmap_put ${m} k é\nt = map_to_properties ${m}\nm2 = map\nr = map_load_properties ${m2} ${t}\nv = map_get ${m2} k\n";
        match run1(&base, script) {
            Ok(c) if c.variables.get("v").map(|v| v == "é").unwrap_or(false) => {}
            Ok(c) => s.mismatch(json!({"kind": "properties", "map": {"k": "é"}, "latin1": true, "why": format!("value é read back as {:?}; map_to_properties gave {:?}", c.variables.get("v"), c.variables.get("t"))})),
            Err(e) => s.mismatch(json!({"kind": "properties", "map": {"k": "é"}, "latin1": true, "why": e})),
        }
    }
    s.set("texts", json!(texts));
    s.set("integers", json!(ints));
    s.set("json_documents", json!(trees));
    s.set("maps", json!(maps));
    s.set("samples", json!(samples));
    s.finish();
}

/// JSON value -> uniform node with object members sorted by key
fn to_node(v: &Value) -> Value {
    match v {
        Value::Null => json!({"t": "null", "v": "", "items": []}),
        Value::Bool(b) => json!({"t": "bool", "v": b.to_string(), "items": []}),
        Value::Number(n) => json!({"t": "num", "v": n.to_string(), "items": []}),
        Value::String(x) => json!({"t": "str", "v": x, "items": []}),
        Value::Array(a) => json!({"t": "arr", "v": "", "items": a.iter().map(|x| json!({"key": "", "val": to_node(x)})).collect::<Vec<_>>()}),
        Value::Object(m) => { let mut ks: Vec<&String> = m.keys().collect(); ks.sort(); json!({"t": "obj", "v": "", "items": ks.iter().map(|k| json!({"key": k, "val": to_node(&m[*k])})).collect::<Vec<_>>()}) }
    }
}
fn rand_doc(r: &mut Rng, depth: usize) -> Value {
    let keys = ["k", "a.b", "c d", "e[0]", "é", "", "x y.z"];
    match if depth == 0 { r.below(5) } else { r.below(8) } {
        0 => json!(*r.pick(&["x", "", "a b", "中", "true", "7"])),
        1 => json!(r.below(1000) as i64 - 500),
        2 => json!(r.chance(1, 2)),
        3 => Value::Null,
        4 => json!("s"),
        5 | 6 => { let mut m = Map::new(); for _ in 0..r.below(4) { m.insert(r.pick(&keys).to_string(), rand_doc(r, depth - 1)); } Value::Object(m) }
        _ => Value::Array((0..r.below(4)).map(|_| rand_doc(r, depth - 1)).collect()),
    }
}
pub fn record(args: &[String]) {
    let seed: u64 = args[0].parse().unwrap();
    let n: usize = args[1].parse().unwrap();
    let mut out = Out::create(&args[2]);
    let base = sdk_context();
    let mut r = Rng::new(seed);
    let mut s = Summary::new();
    for i in 0..n {
        match i % 3 {
            0 => {
                let len = if r.chance(1, 10) { 0 } else if i % 150 == 0 { 1000 + r.below(500) } else { r.below(12) };
                let text0: String = (0..len).map(|_| match r.below(6) { 0 => '\0', 1 => char::from_u32(r.below(0x20) as u32).unwrap(), 2 => char::from_u32(0x20 + r.below(0x5f) as u32).unwrap(), 3 => char::from_u32(0x80 + r.below(0x700) as u32).unwrap_or('x'), 4 => char::from_u32(0x800 + r.below(0xd000) as u32).unwrap_or('y'), _ => char::from_u32(0x10000 + r.below(0xfffff) as u32).unwrap_or('z') }).collect();
                let text0 = if r.chance(1, 8) { format!("\u{feff}{}", text0) } else { text0 };
                let text = make_writable(&text0);
                let script = format!("h = string_to_bytes {}\ne = base64_encode ${{h}}\nback = bytes_to_string ${{h}}\nh2 = base64_decode ${{e}}\nback2 = bytes_to_string ${{h2}}\n", quote_arg(&text));
                match run1(&base, &script) {
                    Err(e) => out.rec(&json!({"kind": "text", "text": cps(&text), "err": e, "bytes": [], "b64": [], "back": [], "back2": []})),
                    Ok(c) => { let g = |k: &str| cps(c.variables.get(k).map(|x| x.as_str()).unwrap_or(""));
                        out.rec(&json!({"kind": "text", "text": cps(&text), "err": "", "bytes": bytes_of(&c, "h").unwrap_or_default(), "b64": g("e"), "back": g("back"), "back2": g("back2")})); }
                }
            }
            1 => {
                if r.chance(1, 2) {
                    let big: u64 = match r.below(4) { 0 => (1u64 << 53) + r.below(64) as u64, 1 => u64::MAX - r.below(64) as u64, _ => r.next() };
                    let digits = |t: &str| -> Vec<u32> { t.chars().map(|c| c.to_digit(10).unwrap_or(0)).collect() };
                    match run1(&base, &format!("e = hex_encode {}\nd = hex_decode ${{e}}\n", big)) {
                        Err(e) => out.rec(&json!({"kind": "hexbig", "n": digits(&big.to_string()), "hex": [], "back": [], "err": e})),
                        Ok(c) => out.rec(&json!({"kind": "hexbig", "n": digits(&big.to_string()), "hex": cps(c.variables.get("e").map(|x| x.as_str()).unwrap_or("")),
                                                 "back": digits(c.variables.get("d").map(|x| x.as_str()).unwrap_or("")), "err": ""})),
                    }
                    continue;
                }
                let nn = match r.below(4) { 0 => r.below(17) as u64, 1 => r.below(70000) as u64, _ => r.next() % 2_000_000_000 };
                match run1(&base, &format!("e = hex_encode {}\nd = hex_decode ${{e}}\n", nn)) {
                    Err(e) => out.rec(&json!({"kind": "hex", "n": nn, "hex": [], "back": 0, "err": e})),
                    Ok(c) => out.rec(&json!({"kind": "hex", "n": nn, "hex": cps(c.variables.get("e").map(|x| x.as_str()).unwrap_or("")), "back": c.variables.get("d").and_then(|x| x.parse::<u64>().ok()).unwrap_or(0), "err": ""})),
                }
            }
            _ => {
                let doc = loop { let d = rand_doc(&mut r, 3); if !d.is_null() && (d.is_object() || d.is_array()) { break d; } };
                let text = serde_json::to_string(&doc).unwrap();
                match run1(&base, &format!("h = json_parse --collection {}\no = json_encode --collection ${{h}}\n", quote_arg(&text))) {
                    Err(e) => out.rec(&json!({"kind": "json", "tree": to_node(&doc), "got": to_node(&Value::Null), "err": e})),
                    Ok(c) => { let got: Value = c.variables.get("o").and_then(|t| serde_json::from_str(t).ok()).unwrap_or(Value::Null);
                        out.rec(&json!({"kind": "json", "tree": to_node(&doc), "got": to_node(&got), "err": ""})); }
                }
            }
        }
    }
    s.set("cases", json!(n));
    s.finish();
}
