//! C11: variable commands and the scope stack against VarScope.tla.
use crate::common::*;
use duckscript::types::runtime::Context;
use serde_json::{json, Value};
use std::collections::BTreeMap;

fn arg_text(a: &str) -> String {
    if a.starts_with("--") && a.chars().all(|c| c.is_ascii_alphanumeric() || c == '-') { a.to_string() } else { crate::c02::lit_arg(a) }
}
pub fn line_of(cmd: &str, args: &[String], tgt: &str) -> String {
    let mut s = String::new();
    s.push_str(if tgt.is_empty() { "o" } else { tgt });
    s.push_str(" = ");
    s.push_str(cmd);
    if cmd == "clear_scope" {
        // model arguments <<name, "::">> : the command takes the scope name
        s.push(' ');
        s.push_str(&arg_text(&args[0]));
    } else {
        for a in args {
            s.push(' ');
            s.push_str(&arg_text(a));
        }
    }
    s.push('\n');
    s
}
fn run(ctx: Context, script: &str) -> Result<Context, String> {
    match run_guarded(script, ctx, Some(quiet_env())) {
        Err(p) => Err(format!("PANIC {}", p)),
        Ok(Err(e)) => Err(format!("ERR {}", e)),
        Ok(Ok(c)) => Ok(c),
    }
}
/// run one operation; returns (context without the observation variable o, o)
pub fn step(ctx: Context, cmd: &str, args: &[String], tgt: &str) -> Result<(Context, Option<String>), String> {
    let mut c = run(ctx, &line_of(cmd, args, tgt))?;
    let o = if tgt.is_empty() { c.variables.remove("o") } else { None };
    Ok((c, o))
}
fn vars_of(c: &Context) -> BTreeMap<String, String> {
    c.variables.clone().into_iter().collect()
}
/// the saved maps, innermost first, observed by popping a clone until the error result appears
pub fn probe_stack(ctx: &Context) -> Result<Vec<BTreeMap<String, String>>, String> {
    let mut c = ctx.clone();
    let mut out = vec![];
    loop {
        let (c2, o) = step(c, "scope_pop_stack", &[], "")?;
        if o.as_deref() == Some("false") {
            return Ok(out);
        }
        out.push(vars_of(&c2));
        c = c2;
        if out.len() > 64 {
            return Err("stack deeper than 64".into());
        }
    }
}
/// contents of the array behind a handle, read through the public commands
pub fn read_array(ctx: &Context, handle: &str) -> Result<Vec<String>, String> {
    let mut c = ctx.clone();
    c.variables.insert("vh_h".into(), handle.to_string());
    let c = run(c, "vh_n = array_length ${vh_h}\n")?;
    let n: usize = c.variables.get("vh_n").and_then(|x| x.parse().ok()).ok_or("array_length failed")?;
    let mut out = vec![];
    let mut c = c;
    for i in 0..n {
        c = run(c, &format!("vh_e = array_get ${{vh_h}} {}\n", i))?;
        out.push(c.variables.get("vh_e").cloned().unwrap_or_default());
    }
    Ok(out)
}
fn exp_map(v: &Value) -> BTreeMap<String, String> {
    let mut m = BTreeMap::new();
    if let Some(o) = v["vals"].as_object() {
        for (k, x) in o {
            m.insert(k.clone(), x.as_str().unwrap().to_string());
        }
    }
    m
}
fn op_parts(op: &Value) -> (String, Vec<String>, String) {
    (op["cmd"].as_str().unwrap().to_string(), strs(&op["args"]), op["tgt"].as_str().unwrap().to_string())
}

pub fn replay(args: &[String]) {
    let base = sdk_context();
    let mut s = Summary::new();
    let (mut states, mut trans, mut unreachable) = (0u64, 0u64, 0u64);
    let mut samples = vec![];
    tlc_lines(&args[0], "REPLAY", |rec| {
        states += 1;
        let mut ctx = base.clone();
        for op in rec["path"].as_array().cloned().unwrap_or_default() {
            let (cmd, a, tgt) = op_parts(&op);
            match step(ctx, &cmd, &a, &tgt) {
                Ok((c, o)) => { ctx = c; if let Some(h) = o { if h.starts_with("handle:") { ctx = run(ctx, &format!("release {}\n", h)).unwrap(); } } }
                Err(e) => { unreachable += 1; s.mismatch(json!({"kind": "path", "path": rec["path"], "op": op, "why": e})); return; }
            }
        }
        let exp_stack: Vec<BTreeMap<String, String>> = rec["stack"].as_array().unwrap().iter().rev().map(exp_map).collect();
        match probe_stack(&ctx) {
            Ok(st) => if vars_of(&ctx) != exp_map(&rec["vars"]) || st != exp_stack {
                s.mismatch(json!({"kind": "state", "path": rec["path"], "why": format!("vars {:?} stack {:?}, expected {} / {}", vars_of(&ctx), st, rec["vars"], rec["stack"])}));
                return;
            },
            Err(e) => { s.mismatch(json!({"kind": "state", "path": rec["path"], "why": e})); return; }
        }
        for nx in rec["next"].as_array().unwrap() {
            trans += 1;
            let (cmd, a, tgt) = op_parts(&nx["op"]);
            match step(ctx.clone(), &cmd, &a, &tgt) {
                Err(e) => s.mismatch(json!({"kind": "transition", "path": rec["path"], "op": nx["op"], "why": e})),
                Ok((c, o)) => {
                    let mut got = vars_of(&c);
                    let mut exp = exp_map(&nx["vars"]);
                    for d in strs(&nx["dc"]) { got.remove(&d); exp.remove(&d); }
                    let eo = nx["out"].as_str().unwrap();
                    let mut why = vec![];
                    let mut c = c;
                    if tgt.is_empty() {
                        match eo {
                            "" => if o.is_some() { why.push(format!("output {:?}, documented none", o)); },
                            "*" => if o.as_deref() == Some("false") { why.push("reported failure".to_string()); },
                            "names" => match o.as_deref().map(|h| read_array(&c, h)) {
                                Some(Ok(mut names)) => { names.sort(); let mut e: Vec<String> = exp.keys().cloned().collect(); e.sort(); if names != e { why.push(format!("names {:?} expected {:?}", names, e)); }
                                    c = run(c, &format!("release {}\n", o.clone().unwrap())).unwrap(); }
                                x => why.push(format!("no array handle: {:?}", x)),
                            },
                            x => if o.as_deref() != Some(x) { why.push(format!("output {:?} expected {:?}", o, x)); },
                        }
                    }
                    if got != exp { why.push(format!("variables {:?} expected {:?}", got, exp)); }
                    let exp_stack: Vec<BTreeMap<String, String>> = nx["stack"].as_array().unwrap().iter().rev().map(exp_map).collect();
                    match probe_stack(&c) {
                        Ok(st) => if st != exp_stack { why.push(format!("scope stack {:?} expected {:?}", st, exp_stack)); },
                        Err(e) => why.push(e),
                    }
                    if !why.is_empty() {
                        s.mismatch(json!({"kind": "transition", "path": rec["path"], "op": nx["op"], "why": why.join("; ")}));
                    }
                }
            }
        }
        if samples.len() < 3 && states % 211 == 0 {
            samples.push(json!({"path": rec["path"], "vars": rec["vars"], "stack_depth": rec["stack"].as_array().unwrap().len()}));
        }
    });
    s.set("states", json!(states));
    s.set("transitions", json!(trans));
    s.set("unreachable_states", json!(unreachable));
    s.set("samples", json!(samples));
    s.finish();
}

const NAMES: &[&str] = &["a", "b", "c", "p", "pq", "p::a", "p::b", "p::c::d", "q::a", "pq::a", "p_x::b", "näme", "x y", "1"];
pub fn record(args: &[String]) {
    let seed: u64 = args[0].parse().unwrap();
    let nhist: usize = args[1].parse().unwrap();
    let len: usize = args[2].parse().unwrap();
    let mut out = Out::create(&args[3]);
    let mut r = Rng::new(seed);
    let base = sdk_context();
    let mut s = Summary::new();
    let mut events = 0u64;
    let kv = |m: &BTreeMap<String, String>| -> Vec<Value> { m.iter().map(|(k, v)| json!({"k": cps(k), "v": cps(v)})).collect() };
    for h in 0..nhist {
        let mut ctx = base.clone();
        out.rec(&json!({"ev": "reset"}));
        events += 1;
        let n = 1 + r.below(len);
        for _ in 0..n {
            let nm = r.pick(NAMES).to_string();
            let val: String = match r.below(6) { 0 => String::new(), 1 => "false".into(), 2 => "a b".into(), 3 => "$a}".into(), _ => (0..1 + r.below(5)).map(|_| char::from_u32(0x30 + r.below(0x2000) as u32).unwrap_or('x')).collect() };
            let copy = |r: &mut Rng| -> Vec<String> { let mut v = vec![]; if r.chance(2, 3) { v.push("--copy".to_string()); for _ in 0..1 + r.below(4) { v.push(r.pick(NAMES).to_string()); } } v };
            let (cmd, a, tgt): (&str, Vec<String>, String) = match r.below(15) {
                0 | 1 if !nm.contains(' ') => ("set", vec![val], nm),
                2 if !nm.contains(' ') => ("set", vec![], nm),
                0..=2 => ("set_by_name", vec![nm, val], String::new()),
                3 => ("unset", (0..1 + r.below(3)).map(|_| r.pick(NAMES).to_string()).collect(), String::new()),
                4 => ("set_by_name", vec![nm, val], String::new()),
                5 => ("set_by_name", vec![nm], String::new()),
                6 => ("get_by_name", vec![nm], String::new()),
                7 => ("is_defined", vec![nm], String::new()),
                8 => ("get_all_var_names", vec![], String::new()),
                9 => if r.chance(1, 4) { ("unset_all_vars", vec![], String::new()) } else { ("unset_all_vars", vec!["--prefix".into(), r.pick(&["p", "p::", "q", "x"]).to_string()], String::new()) },
                10 => ("clear_scope", vec![r.pick(&["p", "q", "p::c", "x"]).to_string(), "::".into()], String::new()),
                11 | 12 => ("scope_push_stack", copy(&mut r), String::new()),
                _ => ("scope_pop_stack", copy(&mut r), String::new()),
            };
            if cmd == "set" && a.len() == 1 && a[0].is_empty() {
                continue; // `x = set ""` has its own documented rule (empty string), kept out of the model
            }
            match step(ctx.clone(), cmd, &a, &tgt) {
                Err(e) => { s.mismatch(json!({"history": h, "cmd": cmd, "args": a, "why": e})); break; }
                Ok((c, o)) => {
                    let mut c = c;
                    let mut names = vec![];
                    if cmd == "get_all_var_names" {
                        if let Some(hd) = &o { names = read_array(&c, hd).unwrap_or_default(); c = run(c, &format!("release {}\n", hd)).unwrap(); }
                    }
                    let stack = probe_stack(&c).unwrap_or_default();
                    out.rec(&json!({"ev": "op", "hist": h, "cmd": cmd, "args": a.iter().map(|x| cps(x)).collect::<Vec<_>>(), "tgt": cps(&tgt),
                        "has_out": o.is_some(), "out": cps(o.as_deref().unwrap_or("")), "names": names.iter().map(|x| cps(x)).collect::<Vec<_>>(),
                        "vars": kv(&vars_of(&c)), "stack": stack.iter().rev().map(|m| kv(m)).collect::<Vec<_>>()}));
                    events += 1;
                    ctx = c;
                }
            }
        }
    }
    s.set("histories", json!(nhist));
    s.set("events", json!(events));
    s.finish();
}
