//! C15: the command registry.  Leg B: per-transition replay of TLC's state graph into the real
//! Commands; leg C: script-level histories (alias / unalias / remove_command / is_command_defined / fn).
use crate::common::*;
use duckscript::types::command::*;
use serde_json::{json, Value};
use std::cell::RefCell;
use std::rc::Rc;

#[derive(Clone)]
struct C {
    n: String,
    a: Vec<String>,
}
impl Command for C {
    fn name(&self) -> String {
        self.n.clone()
    }
    fn aliases(&self) -> Vec<String> {
        self.a.clone()
    }
    fn clone_and_box(&self) -> Box<dyn Command> {
        Box::new(self.clone())
    }
}
fn sorted(v: &Value) -> Vec<String> {
    let mut x = strs(v);
    x.sort();
    x
}
fn apply(r: &mut Commands, op: &Value) -> bool {
    let n = op["n"].as_str().unwrap();
    match op["op"].as_str().unwrap() {
        "set" => r.set(Box::new(C { n: n.into(), a: sorted(&op["a"]) })).is_ok(),
        _ => r.remove(n),
    }
}
fn obs_matches(r: &Commands, obs: &Value) -> Result<(), String> {
    let names = r.get_all_command_names();
    if names != sorted(&obs["names"]) {
        return Err(format!("get_all_command_names {:?}, expected {}", names, obs["names"]));
    }
    for (x, exp) in obs["get"].as_object().unwrap() {
        let got = r.get(x).map(|c| (c.name(), { let mut a = c.aliases(); a.sort(); a }));
        let expn = exp["n"].as_str().unwrap();
        match got {
            None => {
                if !expn.is_empty() {
                    return Err(format!("get({}) = none, expected {}", x, expn));
                }
            }
            Some((n, a)) => {
                if n != expn || a != sorted(&exp["a"]) {
                    return Err(format!("get({}) = {} {:?}, expected {}", x, n, a, exp));
                }
            }
        }
        if r.exists(x) != !expn.is_empty() {
            return Err(format!("exists({}) = {}", x, r.exists(x)));
        }
        let mut r2 = r.clone();
        let u = r2.get_for_use(x).map(|c| c.name());
        if u.unwrap_or_default() != expn {
            return Err(format!("get_for_use({}) differs from get", x));
        }
    }
    for (alias, target) in &r.aliases {
        if !r.commands.contains_key(target) {
            return Err(format!("dangling alias {} -> {}", alias, target));
        }
    }
    Ok(())
}

pub fn replay(args: &[String]) {
    let mut s = Summary::new();
    let (mut states, mut transitions) = (0u64, 0u64);
    let mut samples = vec![];
    tlc_lines(&args[0], "REPLAY", |rec| {
        let mut r = Commands::new();
        for op in rec["path"].as_array().cloned().unwrap_or_default() {
            apply(&mut r, &op);
        }
        states += 1;
        if let Err(e) = obs_matches(&r, &rec["obs"]) {
            s.mismatch(json!({"kind": "state", "path": rec["path"], "why": e}));
            return;
        }
        for nx in rec["next"].as_array().unwrap() {
            let mut r2 = r.clone();
            transitions += 1;
            let ok = apply(&mut r2, nx);
            let res = if ok != nx["ok"].as_bool().unwrap() { Err(format!("returned {}, expected {}", ok, nx["ok"])) } else { obs_matches(&r2, &nx["obs"]) };
            if let Err(e) = res {
                s.mismatch(json!({"kind": "transition", "path": rec["path"], "op": {"op": nx["op"], "n": nx["n"], "a": nx["a"]}, "why": e}));
            }
        }
        if samples.len() < 3 && states % 97 == 0 {
            samples.push(json!({"path": rec["path"], "observation": rec["obs"]}));
        }
    });
    s.set("states", json!(states));
    s.set("transitions", json!(transitions));
    s.set("samples", json!(samples));
    s.finish();
}

const UNIVERSE: &[&str] = &["pp", "qq", "rr", "echo", "set", "std::Echo"];
#[derive(Clone)]
struct Snap {
    log: Log,
}
impl Command for Snap {
    fn name(&self) -> String {
        "snap".into()
    }
    fn clone_and_box(&self) -> Box<dyn Command> {
        Box::new(self.clone())
    }
    fn run(&self, ctx: CommandInvocationContext) -> CommandResult {
        let mut m = serde_json::Map::new();
        for x in UNIVERSE {
            m.insert(x.to_string(), json!(ctx.commands.get(x).map(|c| c.name()).unwrap_or_default()));
        }
        let dangling = ctx.commands.aliases.iter().filter(|(_, t)| !ctx.commands.commands.contains_key(*t)).count();
        self.log.borrow_mut().push(json!({"resolve": m, "out": ctx.variables.get("o").cloned().unwrap_or_default(), "dangling": dangling}));
        CommandResult::Continue(None)
    }
}

pub fn record(args: &[String]) {
    let seed: u64 = args[0].parse().unwrap();
    let nhist: usize = args[1].parse().unwrap();
    let len: usize = args[2].parse().unwrap();
    let mut out = Out::create(&args[3]);
    let mut r = Rng::new(seed);
    let log: Log = Rc::new(RefCell::new(vec![]));
    let mut base = sdk_context();
    base.commands.set(Box::new(Snap { log: log.clone() })).unwrap();
    let mut s = Summary::new();
    let mut events = 0u64;
    for h in 0..nhist {
        let mut script = String::from("snap\n");
        let mut ops = vec![];
        for _ in 0..(1 + r.below(len)) {
            let x = *r.pick(&["pp", "qq", "rr", "pp", "qq", "echo", "set", "std::Echo"]);
            match r.below(10) {
                0..=2 => { let t = *r.pick(&["echo", "set", "pp", "qq"]); script.push_str(&format!("o = alias {} {} a\nsnap\n", x, t)); ops.push(("alias", x)); }
                3 | 4 => { script.push_str(&format!("o = unalias {}\nsnap\n", x)); ops.push(("unalias", x)); }
                5 | 6 => { script.push_str(&format!("o = remove_command {}\nsnap\n", x)); ops.push(("remove_command", x)); }
                7 => { script.push_str(&format!("o = is_command_defined {}\nsnap\n", x)); ops.push(("is_command_defined", x)); }
                _ => { let f = *r.pick(&["pp", "qq", "rr"]); script.push_str(&format!("fn {}\nend\nsnap\n", f)); ops.push(("fn", f)); }
            }
        }
        log.borrow_mut().clear();
        let (res, halted) = run_timed(&script, base.clone(), 20000);
        let l = log.borrow();
        if halted || !matches!(res, Ok(Ok(_))) || l.len() != ops.len() + 1 {
            s.mismatch(json!({"history": h, "script": script, "why": format!("run did not complete: halted={} snaps={} of {}", halted, l.len(), ops.len() + 1)}));
            continue;
        }
        out.rec(&json!({"ev": "reset", "resolve": l[0]["resolve"]}));
        events += 1;
        for (i, (op, x)) in ops.iter().enumerate() {
            let e = &l[i + 1];
            out.rec(&json!({"ev": "op", "hist": h, "op": op, "x": x, "out": if *op == "fn" { json!("") } else { e["out"].clone() }, "resolve": e["resolve"], "dangling": e["dangling"]}));
            events += 1;
        }
    }
    s.set("histories", json!(nhist));
    s.set("events", json!(events));
    s.finish();
}
