//! C13, second thread: raise the halt flag from another thread at a random instant while the real
//! runner executes a non-terminating program; log S/F/HB/HE/End ordered by one atomic counter.
use crate::common::*;
use duckscript::runner;
use duckscript::types::command::*;
use duckscript::types::env::Env;
use serde_json::json;
use std::io::Write;
use std::sync::atomic::{AtomicBool, AtomicU64, Ordering};
use std::sync::{Arc, Mutex};
type TLog = Arc<Mutex<Vec<(u64, &'static str)>>>;
#[derive(Clone)]
struct Tick {
    name: &'static str,
    kind: u8,
    seq: Arc<AtomicU64>,
    log: TLog,
    work: u32,
}
impl Command for Tick {
    fn name(&self) -> String {
        self.name.into()
    }
    fn clone_and_box(&self) -> Box<dyn Command> {
        Box::new(self.clone())
    }
    fn run(&self, _ctx: CommandInvocationContext) -> CommandResult {
        let s = self.seq.fetch_add(1, Ordering::SeqCst);
        let mut x = 0u64;
        for i in 0..self.work {
            x = x.wrapping_add(i as u64).rotate_left(3);
        }
        std::hint::black_box(x);
        let f = self.seq.fetch_add(1, Ordering::SeqCst);
        {
            let mut l = self.log.lock().unwrap();
            l.push((s, "S"));
            l.push((f, "F"));
        }
        match self.kind {
            1 => CommandResult::GoTo(None, GoToValue::Label(":a".into())),
            2 => CommandResult::Error("boom".into()),
            3 => CommandResult::Continue(Some("true".into())),
            _ => CommandResult::Continue(Some("v".into())),
        }
    }
}

const PROGRAMS: &[&str] = &[
    ":a x = tick\n\ntick\njump :a\n",
    ":a fail\ntick\ngoto :a\n",
    "while true\ntick\nif yes\ntick\nend\nend\n",
];

pub fn threads(args: &[String]) {
    let seed: u64 = args[0].parse().unwrap();
    let runs: usize = args[1].parse().unwrap();
    let mut out = std::io::BufWriter::new(std::fs::File::create(&args[2]).unwrap());
    let mut r = Rng::new(seed);
    let mut s = Summary::new();
    let (mut events, mut late_returns) = (0u64, 0u64);
    for i in 0..runs {
        let delay_us = r.below(300) as u128;
        let work = r.below(2000) as u32;
        let pidx = i % PROGRAMS.len();
        let seq = Arc::new(AtomicU64::new(0));
        let log: TLog = Arc::new(Mutex::new(vec![]));
        let halt = Arc::new(AtomicBool::new(false));
        let (seq2, log2, halt2) = (seq.clone(), log.clone(), halt.clone());
        let ready = Arc::new(AtomicBool::new(false));
        let ready2 = ready.clone();
        let t_he = Arc::new(Mutex::new(None::<std::time::Instant>));
        let runner_thread = std::thread::spawn(move || {
            let mut ctx = if pidx == 0 { duckscript::types::runtime::Context::new() } else { sdk_context() };
            for (name, kind) in [("tick", 0u8), ("jump", 1), ("fail", 2), ("yes", 3)] {
                ctx.commands.set(Box::new(Tick { name, kind, seq: seq2.clone(), log: log2.clone(), work })).unwrap();
            }
            let env = Env::new(Some(Box::new(std::io::sink())), Some(Box::new(std::io::sink())), Some(halt2));
            ready2.store(true, Ordering::SeqCst);
            let res = runner::run_script(PROGRAMS[pidx], ctx, Some(env));
            let e = seq2.fetch_add(1, Ordering::SeqCst);
            log2.lock().unwrap().push((e, if res.is_ok() { "End" } else { "EndErr" }));
            std::time::Instant::now()
        });
        while !ready.load(Ordering::SeqCst) {
            std::hint::spin_loop();
        }
        let t0 = std::time::Instant::now();
        while t0.elapsed().as_micros() < delay_us {
            std::hint::spin_loop();
        }
        let hb = seq.fetch_add(1, Ordering::SeqCst);
        halt.store(true, Ordering::SeqCst);
        let he = seq.fetch_add(1, Ordering::SeqCst);
        *t_he.lock().unwrap() = Some(std::time::Instant::now());
        {
            let mut l = log.lock().unwrap();
            l.push((hb, "HB"));
            l.push((he, "HE"));
        }
        let returned = runner_thread.join().unwrap();
        if returned.duration_since(t_he.lock().unwrap().unwrap()).as_millis() > 2000 {
            late_returns += 1;
        }
        let mut l = log.lock().unwrap().clone();
        l.sort();
        writeln!(out, "{{\"ev\":\"Reset\"}}").unwrap();
        events += 1;
        // keep the tail (the prefix is plain S/F alternation): start at an S
        let mut cut = l.len().saturating_sub(40);
        while cut < l.len() && l[cut].1 != "S" && cut > 0 {
            cut += 1;
        }
        for (_, e) in &l[cut..] {
            writeln!(out, "{{\"ev\":\"{}\"}}", e).unwrap();
            events += 1;
        }
    }
    if late_returns > 0 {
        s.mismatch(json!({"why": format!("{} runs returned more than 2 s after the flag was stored", late_returns)}));
    }
    s.set("runs", json!(runs));
    s.set("events", json!(events));
    s.finish();
}
