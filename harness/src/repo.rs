//! Growth: proxy-logged traces of the repository's own .ds test scripts.
use crate::common::*;
use duckscript::types::command::*;
use serde_json::{json, Value};
use std::cell::RefCell;
use std::rc::Rc;

#[derive(Clone)]
struct Proxy {
    inner: CommandBox,
    log: Rc<RefCell<Vec<Value>>>,
}
impl Command for Proxy {
    fn name(&self) -> String {
        self.inner.name()
    }
    fn aliases(&self) -> Vec<String> {
        self.inner.aliases()
    }
    fn help(&self) -> String {
        self.inner.help()
    }
    fn clone_and_box(&self) -> Box<dyn Command> {
        Box::new(self.clone())
    }
    fn run(&self, ctx: CommandInvocationContext) -> CommandResult {
        let args = ctx.arguments.clone();
        let first_is_cmd = args.get(0).map(|a| ctx.commands.exists(a)).unwrap_or(false);
        let arg0_defined = args.get(0).map(|a| ctx.variables.contains_key(a)).unwrap_or(false);
        let name = self.inner.name();
        let r = self.inner.run(ctx);
        let (kind, out) = match &r {
            CommandResult::Continue(v) => ("continue", v.clone()),
            CommandResult::GoTo(v, _) => ("goto", v.clone()),
            CommandResult::Error(_) => ("error", None),
            CommandResult::Crash(_) => ("crash", None),
            CommandResult::Exit(v) => ("exit", v.clone()),
        };
        self.log.borrow_mut().push(json!({"ev": "call", "cmd": name, "args": args.iter().map(|a| cps(a)).collect::<Vec<_>>(), "kind": kind,
            "has_out": out.is_some(), "out": cps(out.as_deref().unwrap_or("")), "first_is_cmd": first_is_cmd, "arg0_defined": arg0_defined}));
        r
    }
}

fn walk(dir: &std::path::Path, out: &mut Vec<String>) {
    if let Ok(rd) = std::fs::read_dir(dir) {
        let mut es: Vec<_> = rd.flatten().collect();
        es.sort_by_key(|e| e.file_name());
        for e in es {
            let p = e.path();
            if p.is_dir() { walk(&p, out); } else if p.extension().map(|x| x == "ds").unwrap_or(false) { out.push(p.to_string_lossy().into_owned()); }
        }
    }
}

pub fn record(args: &[String]) {
    let mut out = Out::create(&args[0]);
    let log = Rc::new(RefCell::new(vec![]));
    let mut ctx = sdk_context();
    let names: Vec<String> = ctx.commands.commands.keys().cloned().collect();
    for n in names {
        let inner = ctx.commands.commands.remove(&n).unwrap();
        ctx.commands.commands.insert(n, Box::new(Proxy { inner, log: log.clone() }));
    }
    let mut files = vec![];
    walk(std::path::Path::new("/repo/test"), &mut files);
    let home = std::env::current_dir().unwrap();
    std::env::set_current_dir("/repo/duckscript_sdk").unwrap();
    std::env::set_var("DUCKSCRIPT_TEST_RUST", "true");
    let mut s = Summary::new();
    let (mut events, mut nfiles, mut skipped) = (0u64, 0u64, 0u64);
    for f in files {
        if f.contains("/net/") || f.ends_with("helper.ds") || f.contains("/process/") || f.contains("read") && f.contains("/std/read") {
            skipped += 1;
            continue;
        }
        log.borrow_mut().clear();
        let script = format!("r = test_file \"{}\"\n", f);
        let (res, halted) = run_timed(&script, ctx.clone(), 20000);
        let _ = std::env::set_current_dir("/repo/duckscript_sdk");
        let status = if halted { "hang".to_string() } else { match res { Err(p) => format!("panic {}", p), Ok(Err(e)) => format!("failed {}", e.to_string().chars().take(120).collect::<String>()), Ok(Ok(_)) => "ok".to_string() } };
        if status.starts_with("panic") || status == "hang" {
            s.mismatch(json!({"file": f, "why": status}));
        }
        nfiles += 1;
        out.rec(&json!({"ev": "file", "file": f, "status": status}));
        for e in log.borrow().iter() {
            let mut e = e.clone();
            e["file"] = json!(f);
            out.rec(&e);
            events += 1;
        }
        events += 1;
    }
    let _ = std::env::set_current_dir(&home);
    s.set("files", json!(nfiles));
    s.set("skipped", json!(skipped));
    s.set("events", json!(events));
    s.finish();
}
