//! C14: include trees through the real parse_file / run_script_file against Includes.tla.
use crate::common::*;
use duckscript::parser;
use duckscript::types::error::ScriptError;
use duckscript::types::instruction::InstructionType;
use duckscript::types::runtime::Context;
use serde_json::{json, Value};
use std::cell::RefCell;
use std::path::{Path, PathBuf};
use std::rc::Rc;

const REL: &[&str] = &["nofile.ds", "main.ds", "lib dir/a b.ds", "lib dir/deep/c.ds", "other/d.ds", "lib dir/deep/er/e.ds", "f.ds"];
fn rel_of(f: usize) -> &'static str {
    REL[f]
}
/// how file `from` refers to file `to`: relative to from's directory (with ..), or absolute
fn reference(root: &Path, from: usize, to: usize, form: usize) -> String {
    if form % 3 == 2 {
        return root.join(rel_of(to)).to_string_lossy().into_owned();
    }
    let from_dir: Vec<&str> = { let mut v: Vec<&str> = rel_of(from).split('/').collect(); v.pop(); v };
    let to_parts: Vec<&str> = rel_of(to).split('/').collect();
    let mut common = 0;
    while common < from_dir.len() && common + 1 < to_parts.len() && from_dir[common] == to_parts[common] {
        common += 1;
    }
    let mut parts: Vec<String> = vec![];
    if form % 3 == 1 {
        parts.push(".".into());
    }
    for _ in common..from_dir.len() {
        parts.push("..".into());
    }
    for p in &to_parts[common..] {
        parts.push(p.to_string());
    }
    parts.join("/")
}
fn line_text(root: &Path, f: usize, j: usize, ln: &Value, form: usize) -> String {
    match ln["k"].as_str().unwrap() {
        "plain" => format!("emit {}:{}", f, j),
        "bad" => "emit \"unterminated".to_string(),
        _ => {
            let mut s = String::from("!include_files");
            for (n, t) in ln["to"].as_array().unwrap().iter().enumerate() {
                s.push_str(&format!(" \"{}\"", reference(root, f, t.as_u64().unwrap() as usize, form + n + j)));
            }
            s
        }
    }
}
fn materialise(root: &Path, tree: &Value, form: usize) {
    let _ = std::fs::remove_dir_all(root);
    for (idx, lines) in tree.as_array().unwrap().iter().enumerate() {
        let f = idx + 1;
        let lines = lines.as_array().unwrap();
        let p = root.join(rel_of(f));
        std::fs::create_dir_all(p.parent().unwrap()).unwrap();
        let text: String = lines.iter().enumerate().map(|(j, ln)| line_text(root, f, j + 1, ln, form) + "\n").collect();
        std::fs::write(&p, text).unwrap();
    }
}
fn file_index(root: &Path, source: &str) -> i64 {
    for f in 0..REL.len() {
        let p = root.join(rel_of(f));
        let canon = p.canonicalize().unwrap_or(p.clone());
        if Path::new(source) == canon || Path::new(source) == p {
            return f as i64;
        }
    }
    -1
}
/// Includes!Flatten-shaped observation of parse_file
pub fn observe(root: &Path) -> Value {
    let main = root.join("main.ds");
    let r = std::panic::catch_unwind(|| parser::parse_file(&main.to_string_lossy()));
    match r {
        Err(_) => json!({"panic": true}),
        Ok(Ok(ins)) => {
            let list: Vec<Value> = ins.iter().map(|i| {
                let k = match &i.instruction_type { InstructionType::PreProcess(p) if p.command.as_deref() == Some("include_files") => "inc", InstructionType::Script(s) if s.command.as_deref() == Some("emit") => "plain", _ => "other" };
                json!({"file": file_index(root, i.meta_info.source.as_deref().unwrap_or("")), "line": i.meta_info.line.unwrap_or(0), "k": k})
            }).collect();
            json!({"ok": list})
        }
        Ok(Err(ScriptError::ErrorReadingFile(f, _))) => {
            // the missing file is named as resolved against the includer's directory
            let name_ok = Path::new(&f).file_name().map(|n| n == "nofile.ds").unwrap_or(false);
            json!({"err": "missing", "file": if name_ok { 0 } else { -1 }, "line": 0})
        }
        Ok(Err(e)) => {
            let (k, line, src) = err_kind(&e);
            json!({"err": if k == "MissingEndQuotes" { "malformed" } else { k }, "file": file_index(root, src.as_deref().unwrap_or("")), "line": line.unwrap_or(0)})
        }
    }
}
fn run_trace(base: &Context, log: &Log, root: &Path, pasted: Option<&str>) -> Result<Vec<String>, String> {
    log.borrow_mut().clear();
    let r = std::panic::catch_unwind(std::panic::AssertUnwindSafe(|| match pasted {
        Some(text) => duckscript::runner::run_script(text, base.clone(), Some(quiet_env())),
        None => duckscript::runner::run_script_file(&root.join("main.ds").to_string_lossy(), base.clone(), Some(quiet_env())),
    }));
    match r {
        Err(_) => Err("panic".into()),
        Ok(Err(e)) => Err(format!("{}", e)),
        Ok(Ok(_)) => Ok(log.borrow().iter().map(|e| e["args"][0].as_str().unwrap_or("").to_string()).collect()),
    }
}
fn paste(tree: &Value, f: usize) -> String {
    let mut s = String::new();
    for (j, ln) in tree[f - 1].as_array().unwrap().iter().enumerate() {
        match ln["k"].as_str().unwrap() {
            "plain" => s.push_str(&format!("emit {}:{}\n", f, j + 1)),
            "inc" => for t in ln["to"].as_array().unwrap() { s.push_str(&paste(tree, t.as_u64().unwrap() as usize)); },
            _ => {}
        }
    }
    s
}

pub fn replay(args: &[String]) {
    let root: PathBuf = PathBuf::from(&args[1]).join("c14_tree");
    std::fs::create_dir_all(&root).unwrap();
    let root = root.canonicalize().unwrap();
    let log: Log = Rc::new(RefCell::new(vec![]));
    let mut base = Context::new();
    base.commands.set(Box::new(Emit { name: "emit".into(), log: log.clone(), with_vars: false })).unwrap();
    let mut s = Summary::new();
    let (mut trees, mut runs) = (0u64, 0u64);
    let mut samples = vec![];
    tlc_lines(&args[0], "TREE", |rec| {
        trees += 1;
        let form = trees as usize;
        materialise(&root, &rec["tree"], form);
        let got = observe(&root);
        if got != rec["exp"] {
            s.mismatch(json!({"tree": rec["tree"], "why": "parse_file result", "got": got, "expected": rec["exp"], "main": std::fs::read_to_string(root.join("main.ds")).unwrap_or_default()}));
        } else if rec["exp"].get("ok").is_some() {
            runs += 1;
            let a = run_trace(&base, &log, &root, None);
            let b = run_trace(&base, &log, &root, Some(&paste(&rec["tree"], 1)));
            let exp: Vec<String> = rec["exp"]["ok"].as_array().unwrap().iter().filter(|e| e["k"] == "plain").map(|e| format!("{}:{}", e["file"], e["line"])).collect();
            if a != b || a.as_ref().ok() != Some(&exp) {
                s.mismatch(json!({"tree": rec["tree"], "why": "run_script_file differs from the pasted script", "file_run": format!("{:?}", a), "pasted_run": format!("{:?}", b), "expected": exp}));
            }
        }
        if samples.len() < 3 && trees % 1777 == 0 {
            samples.push(json!({"tree": rec["tree"], "main.ds": std::fs::read_to_string(root.join("main.ds")).unwrap_or_default(), "parse_file": got}));
        }
    });
    let _ = std::fs::remove_dir_all(&root);
    s.set("trees", json!(trees));
    s.set("runs", json!(runs));
    s.set("samples", json!(samples));
    s.finish();
}

pub fn record(args: &[String]) {
    let seed: u64 = args[0].parse().unwrap();
    let n: usize = args[1].parse().unwrap();
    let mut out = Out::create(&args[2]);
    let root: PathBuf = PathBuf::from(&args[3]).join("c14_rec");
    std::fs::create_dir_all(&root).unwrap();
    let root = root.canonicalize().unwrap();
    let mut r = Rng::new(seed);
    let mut s = Summary::new();
    let nf = 6;
    let mut total_lines = 0u64;
    for k in 0..n {
        let mut tree: Vec<Vec<Value>> = vec![vec![]; nf];
        let mut incs = 0;
        for f in 1..=nf {
            let len = if f == 1 { 1 + r.below(6) } else { r.below(5) };
            for _ in 0..len {
                let ln = if f < nf && incs < 7 && r.chance(2, 5) {
                    incs += 1;
                    let cnt = 1 + r.below(3);
                    let to: Vec<usize> = (0..cnt).map(|_| if r.chance(1, 25) { 0 } else { f + 1 + r.below(nf - f) }).collect();
                    json!({"k": "inc", "to": to})
                } else if r.chance(1, 30) { json!({"k": "bad"}) } else { json!({"k": "plain"}) };
                tree[f - 1].push(ln);
            }
        }
        total_lines += tree.iter().map(|l| l.len() as u64).sum::<u64>();
        let tv = json!(tree);
        materialise(&root, &tv, k);
        // files that are referenced but have no lines must exist too
        for f in 2..=nf { let p = root.join(rel_of(f)); if !p.exists() { std::fs::create_dir_all(p.parent().unwrap()).unwrap(); std::fs::write(&p, "").unwrap(); } }
        let got = observe(&root);
        out.rec(&json!({"tree": tv, "got": got}));
    }
    let _ = std::fs::remove_dir_all(&root);
    s.set("trees", json!(n));
    s.set("lines", json!(total_lines));
    s.finish();
}
