//! C01 / C08: the real parser against Syntax (R-level) and Parser (I-level).
use crate::common::*;
use serde_json::{json, Value};

/// leg B of C01: every TLC-emitted rendering must parse back to its instruction
pub fn replay(args: &[String]) {
    let mut s = Summary::new();
    let (mut cases, mut rend) = (0u64, 0u64);
    let mut samples = vec![];
    tlc_lines(&args[0], "CASE", |rec| {
        cases += 1;
        let exp = &rec["exp"];
        for r in rec["rs"].as_array().unwrap() {
            rend += 1;
            let line = uncps(r);
            let text = format!("{}\n", line);
            let (got, lines) = parse_norm(&text);
            let ok = got["t"] == "ok" && got["ins"].as_array().map(|a| a.len() == 1 && &a[0] == exp).unwrap_or(false) && lines == vec![Some(1)];
            if !ok {
                s.mismatch(json!({"line": line, "expected": exp, "got": got}));
            }
            if samples.len() < 3 && rend % 977 == 0 {
                samples.push(json!({"line": line, "parsed": got}));
            }
        }
    });
    s.set("cases", json!(cases));
    s.set("renderings", json!(rend));
    s.set("samples", json!(samples));
    s.finish();
}

const CLASS: &[char] = &[' ', ' ', '"', '"', '\\', '\\', '#', '=', ':', '!', '$', '%', '{', '}', 'n', 'r', 't', 'a', 'b', '\t', '\n', '\r', 'é', '😀', '\u{a0}', '\u{2003}', '\u{85}', '\0', '-', '.'];
fn rand_char(r: &mut Rng) -> char {
    match r.below(10) {
        0..=5 => *r.pick(CLASS),
        6 => char::from_u32(0x20 + r.below(0x5f) as u32).unwrap(),
        7 => char::from_u32(0xa0 + r.below(0x2000) as u32).unwrap_or('x'),
        8 => char::from_u32(0x10000 + r.below(0x20000) as u32).unwrap_or('y'),
        _ => char::from_u32(r.below(0xd7ff) as u32).unwrap_or('z'),
    }
}
fn is_ws(c: char) -> bool {
    c.is_whitespace()
}
fn rand_name(r: &mut Rng) -> String {
    let n = 1 + r.below(6);
    let mut s = String::new();
    while s.chars().count() < n {
        let c = if r.chance(2, 3) { char::from_u32(0x61 + r.below(26) as u32).unwrap() } else { rand_char(r) };
        if is_ws(c) || "\"\\#=".contains(c) {
            continue;
        }
        if s.is_empty() && (c == ':' || c == '!') {
            continue;
        }
        s.push(c);
    }
    s
}
fn rand_arg(r: &mut Rng) -> String {
    let n = match r.below(8) {
        0 => 0,
        1..=5 => 1 + r.below(6),
        _ => 6 + r.below(30),
    };
    (0..n).map(|_| rand_char(r)).collect()
}
fn esc(a: &str, rawtab: bool) -> String {
    let mut o = String::new();
    for c in a.chars() {
        match c {
            '\\' => o.push_str("\\\\"),
            '"' => o.push_str("\\\""),
            '\n' => o.push_str("\\n"),
            '\r' => o.push_str("\\r"),
            '\t' => {
                if rawtab {
                    o.push('\t')
                } else {
                    o.push_str("\\t")
                }
            }
            c => o.push(c),
        }
    }
    o
}
fn must_quote(a: &str, first: bool, no_out: bool, rawtab: bool) -> bool {
    let raw_ws_end = a.chars().last().map(|c| is_ws(c) && c != '\n' && c != '\r' && (c != '\t' || rawtab)).unwrap_or(false);
    a.is_empty() || a.contains(' ') || a.contains('#') || (first && no_out && a.starts_with('=')) || raw_ws_end
}

/// one random instruction with random rendering choices; returns (record, rendered line)
pub fn rand_line(r: &mut Rng) -> (Value, String) {
    let label = if r.chance(1, 4) { Some(rand_name(r)) } else { None };
    let out = if r.chance(1, 3) { Some(rand_name(r)) } else { None };
    let cmd = if r.chance(5, 6) { Some(rand_name(r)) } else { None };
    let args: Vec<String> = if cmd.is_some() { (0..r.below(6)).map(|_| rand_arg(r)).collect() } else { vec![] };
    let lead: String = (0..r.below(3)).map(|_| *r.pick(&[' ', '\t', '\u{a0}', '\u{3000}'])).collect();
    let labsep = 1 + r.below(3);
    let (eqpre, eqpost) = (r.below(3), r.below(3));
    let sep: Vec<usize> = args.iter().map(|_| 1 + r.below(3)).collect();
    let q: Vec<bool> = args.iter().map(|_| r.chance(1, 2)).collect();
    let rawtab: Vec<bool> = args.iter().map(|_| r.chance(1, 2)).collect();
    let trail = r.below(3);
    let comment: Option<String> = if r.chance(1, 3) { Some((0..r.below(8)).map(|_| rand_char(r)).filter(|c| *c != '\n' && *c != '\r').collect()) } else { None };
    let mut line = lead.clone();
    if let Some(l) = &label {
        line.push(':');
        line.push_str(l);
        line.push_str(&" ".repeat(labsep));
    }
    if let Some(o) = &out {
        line.push_str(o);
        line.push_str(&" ".repeat(eqpre));
        line.push('=');
        line.push_str(&" ".repeat(eqpost));
    }
    if let Some(c) = &cmd {
        line.push_str(c);
    }
    for (i, a) in args.iter().enumerate() {
        line.push_str(&" ".repeat(sep[i]));
        if q[i] || must_quote(a, i == 0, out.is_none(), rawtab[i]) {
            line.push('"');
            line.push_str(&esc(a, rawtab[i]));
            line.push('"');
        } else {
            line.push_str(&esc(a, rawtab[i]));
        }
    }
    line.push_str(&" ".repeat(trail));
    if let Some(c) = &comment {
        line.push('#');
        line.push_str(c);
    }
    let o = |x: &Option<String>| x.as_ref().map(|s| cps(s)).unwrap_or_default();
    let rec = json!({
        "ins": {"label": o(&label), "out": o(&out), "cmd": o(&cmd), "args": args.iter().map(|a| cps(a)).collect::<Vec<_>>()},
        "ch": {"lead": cps(&lead), "labsep": labsep, "eqpre": eqpre, "eqpost": eqpost, "sep": sep, "q": q, "rawtab": rawtab,
               "trail": trail, "comment": comment.iter().map(|c| cps(c)).collect::<Vec<_>>()}
    });
    (rec, line)
}

/// leg C of C01: random Unicode instructions rendered by the Rust mirror of Syntax!Render, parsed by the real parser
pub fn record(args: &[String]) {
    let seed: u64 = args[0].parse().unwrap();
    let nscripts: usize = args[1].parse().unwrap();
    let maxlines: usize = args[2].parse().unwrap();
    let mut out = Out::create(&args[3]);
    let mut r = Rng::new(seed);
    let mut nlines = 0u64;
    for _ in 0..nscripts {
        let n = 1 + r.below(maxlines);
        let crlf = r.chance(1, 4);
        let eol = if crlf { "\r\n" } else { "\n" };
        let mut text = String::new();
        let mut lines = vec![];
        for _ in 0..n {
            let (rec, line) = rand_line(&mut r);
            text.push_str(&line);
            text.push_str(eol);
            lines.push(rec);
            nlines += 1;
        }
        let (parsed, linenos) = parse_norm(&text);
        out.rec(&json!({"lines": lines, "eol": cps(eol), "text": cps(&text), "parsed": parsed,
                        "linenos": linenos.iter().map(|l| l.unwrap_or(0)).collect::<Vec<_>>()}));
    }
    let mut s = Summary::new();
    s.set("scripts", json!(nscripts));
    s.set("lines", json!(nlines));
    s.finish();
}

/// leg B of C08: every line of the bounded alphabet; R-level: total, one instruction per line, blank/comment => empty
pub fn c08_replay(args: &[String]) {
    let mut s = Summary::new();
    let (mut n, mut errs, mut drift) = (0u64, 0u64, 0u64);
    let mut drift_ex = vec![];
    tlc_lines(&args[0], "LINE", |rec| {
        n += 1;
        let line = uncps(&rec["line"]);
        let text = format!("{}\n", line);
        let (got, lines) = parse_norm(&text);
        let model = &rec["res"];
        let blank = { let t = line.trim(); t.is_empty() || t.starts_with('#') };
        let r_ok = match got["t"].as_str().unwrap() {
            "panic" => false,
            "err" => { errs += 1; got["line"] == 1 && !blank }
            _ => { let a = got["ins"].as_array().unwrap(); a.len() == 1 && lines == vec![Some(1)] && (!blank || a[0]["t"] == "empty") }
        };
        if !r_ok {
            s.mismatch(json!({"line": line, "got": got, "why": "not total / not one instruction per line / blank not empty"}));
        }
        let same = if got["t"] == "err" { model["t"] == "err" && model["k"] == got["k"] } else { got["t"] == "ok" && got["ins"][0] == *model };
        if !same {
            drift += 1;
            if drift_ex.len() < 5 { drift_ex.push(json!({"line": line, "model": model, "real": got})); }
        }
    });
    s.set("lines", json!(n));
    s.set("rejected", json!(errs));
    s.set("drift", json!(drift));
    s.set("drift_examples", json!(drift_ex));
    s.finish();
}

/// leg B of C08, malformed part: each single-defect line planted at every position of a script of good lines
pub fn c08_malformed(args: &[String]) {
    let seed: u64 = args[1].parse().unwrap();
    let mut r = Rng::new(seed);
    let mut s = Summary::new();
    let (mut n, mut scripts) = (0u64, 0u64);
    let mut samples = vec![];
    tlc_lines(&args[0], "BAD", |rec| {
        n += 1;
        let bad = uncps(&rec["line"]);
        let kind = rec["err"].as_str().unwrap().to_string();
        for (before, after) in [(0usize, 0usize), (0, 2), (1, 0), (3, 1), (7, 4)] {
            for crlf in [false, true] {
                scripts += 1;
                let eol = if crlf { "\r\n" } else { "\n" };
                let mut text = String::new();
                for _ in 0..before { text.push_str(&rand_line(&mut r).1); text.push_str(eol); }
                text.push_str(&bad); text.push_str(eol);
                for _ in 0..after { text.push_str(&rand_line(&mut r).1); text.push_str(eol); }
                let (got, _) = parse_norm(&text);
                let ok = got["t"] == "err" && got["k"] == kind.as_str() && got["line"] == (before + 1) as u64;
                if !ok {
                    s.mismatch(json!({"bad_line": bad, "defect": rec["kind"], "position": before + 1, "expected": {"k": kind, "line": before + 1}, "got": got, "text": text}));
                }
                if samples.len() < 3 && scripts % 501 == 0 { samples.push(json!({"text": text, "got": got})); }
            }
        }
    });
    s.set("malformed_lines", json!(n));
    s.set("scripts", json!(scripts));
    s.set("samples", json!(samples));
    s.finish();
}

const PIECES: &[&str] = &["a", "n", "t", "é", "=", "%", "$", "{", "}", "x y", "\\\\", "\\\"", "\\n", "\\r", "\\t", "\\${", "${v}", "%{v}", "\\${v}"];
const ODD: &[&str] = &["\\$n", "\\$\\", "\\$\"", "\\$t", "\\$r", "\\$$", "\\$${v}", "\\$ ", "\\$a", "\\a", "\\{", "\\ ", "\\#", "\\$", "\\"];
fn near_valid(r: &mut Rng) -> String {
    let mut text = String::new();
    let lines = 1 + r.below(4);
    for _ in 0..lines {
        if r.chance(1, 4) { text.push_str(":lab "); }
        if r.chance(1, 3) { text.push_str("o = "); }
        text.push_str("cm");
        for _ in 0..r.below(4) {
            text.push(' ');
            let quoted = r.chance(2, 3);
            if quoted { text.push('"'); }
            for _ in 0..r.below(4) {
                let p = if r.chance(1, 12) { *r.pick(ODD) } else { *r.pick(PIECES) };
                if !quoted && (p.contains(' ') || p.contains('#')) { text.push('a'); } else { text.push_str(p); }
            }
            if quoted { text.push('"'); }
        }
        if r.chance(1, 6) { text.push_str(" # c \\$n"); }
        text.push_str(if r.chance(1, 3) { "\r\n" } else { "\n" });
    }
    text
}
const SOUP: &[char] = &[':', '=', '"', '\\', '#', '!', '$', '%', '{', '}', ' ', ' ', '\t', 'a', 'n', 'p', 'r', 'i', 't', '\n', '\n', '\r', 'é', '😀', '\u{a0}'];
/// leg C of C08: arbitrary texts through the real parser, recorded for validation by Parser!ParseText
pub fn c08_record(args: &[String]) {
    let seed: u64 = args[0].parse().unwrap();
    let n: usize = args[1].parse().unwrap();
    let mut out = Out::create(&args[2]);
    let mut r = Rng::new(seed);
    let mut s = Summary::new();
    let mut chars = 0u64;
    for i in 0..n {
        let len = match r.below(20) { 0 => 0, 1 => 200 + r.below(400), _ => r.below(40) };
        let mut text = String::new();
        if i % 11 == 0 { text.push_str("!print "); }
        if i % 3 == 1 {
            // near-valid texts: several lines of quoted / bare arguments assembled from escape pieces, so that an
            // undocumented escape (\x, \$x, \$$, a trailing backslash) shows up late and alone instead of being
            // shadowed by an earlier defect of the random soup
            text = near_valid(&mut r);
        } else {
        for _ in 0..len {
            let c = if r.chance(3, 4) { *r.pick(SOUP) } else { rand_char(&mut r) };
            text.push(c);
        }
        }
        if text.contains("include_files") { continue; }
        chars += text.chars().count() as u64;
        let (parsed, linenos) = parse_norm(&text);
        out.rec(&json!({"text": cps(&text), "parsed": parsed, "linenos": linenos.iter().map(|l| l.unwrap_or(0)).collect::<Vec<_>>()}));
    }
    // one very long line: totality on size
    let long: String = (0..100000).map(|_| *r.pick(SOUP)).filter(|c| *c != '\n').collect();
    let (p, _) = parse_norm(&long);
    if p["t"] == "panic" { s.mismatch(json!({"why": "panic on a 100000-character line"})); }
    s.set("texts", json!(n));
    s.set("chars", json!(chars));
    s.finish();
}
