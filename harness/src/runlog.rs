//! Growth (C02 / C03 / C19 on real workloads): a transparent proxy around every command - the registered ones and
//! the ones scripts define while they run - logs, for every invocation, the interpreter loop it was made from
//! (the instruction list the loop runs over, logged once per loop instance), the line, the bound arguments, the
//! variables before the command ran and after it returned (before the loop stores the output), and the result.
//! The traces of the repository's own test scripts are validated against RunLoop.tla (spec/RunLoop_Trace.tla).
use crate::common::*;
use duckscript::types::command::*;
use duckscript::types::instruction::*;
use serde_json::{json, Value};
use std::cell::RefCell;
use std::collections::HashMap;
use std::hash::{Hash, Hasher};
use std::rc::Rc;

const MARK: &str = "\u{1}vh-proxy";

#[derive(Default)]
struct Shared {
    log: Vec<Value>,
    seq: u64,
    depth: usize,
    /// per depth: (address of the instruction list, hash of its content, loop id)
    loops: Vec<(usize, u64, u64)>,
    next_loop: u64,
    /// name of the command whose invocation is open at each depth (the parent of loops one level deeper)
    open: Vec<String>,
}

#[derive(Clone)]
struct Proxy {
    inner: CommandBox,
    sh: Rc<RefCell<Shared>>,
}

fn vars_json(v: &HashMap<String, String>) -> Value {
    let mut ks: Vec<&String> = v.keys().collect();
    ks.sort();
    Value::Array(ks.iter().map(|k| json!({"k": cps(k), "v": cps(&v[*k])})).collect())
}

fn table(instructions: &Vec<Instruction>) -> Value {
    Value::Array(instructions.iter().map(|i| match &i.instruction_type {
        InstructionType::Empty => json!({"t": "empty", "label": [], "out": [], "cmd": [], "args": [], "src": i.meta_info.line.unwrap_or(0)}),
        InstructionType::PreProcess(_) => json!({"t": "pre", "label": [], "out": [], "cmd": [], "args": [], "src": i.meta_info.line.unwrap_or(0)}),
        InstructionType::Script(s) => json!({"t": "script", "label": opt_cps(&s.label), "out": opt_cps(&s.output), "cmd": opt_cps(&s.command),
            "args": s.arguments.clone().unwrap_or_default().iter().map(|a| cps(a)).collect::<Vec<_>>(), "src": i.meta_info.line.unwrap_or(0)}),
    }).collect())
}

fn wrap_all(commands: &mut Commands, sh: &Rc<RefCell<Shared>>) {
    let names: Vec<String> = commands.commands.iter().filter(|(_, c)| !c.help().ends_with(MARK)).map(|(n, _)| n.clone()).collect();
    for n in names {
        let inner = commands.commands.remove(&n).unwrap();
        commands.commands.insert(n, Box::new(Proxy { inner, sh: sh.clone() }));
    }
}

impl Command for Proxy {
    fn name(&self) -> String {
        self.inner.name()
    }
    fn aliases(&self) -> Vec<String> {
        self.inner.aliases()
    }
    fn help(&self) -> String {
        let mut h = self.inner.help();
        h.push_str(MARK);
        h
    }
    fn clone_and_box(&self) -> Box<dyn Command> {
        Box::new(self.clone())
    }
    fn run(&self, ctx: CommandInvocationContext) -> CommandResult {
        let CommandInvocationContext { arguments, state, variables, output_variable, instructions, commands, line, env } = ctx;
        let name = self.inner.name();
        let ptr = instructions as *const Vec<Instruction> as usize;
        let mut hasher = std::collections::hash_map::DefaultHasher::new();
        format!("{:?}", instructions).hash(&mut hasher);
        let h = hasher.finish();
        let (seq, depth, loop_id) = {
            let mut s = self.sh.borrow_mut();
            s.seq += 1;
            let depth = s.depth;
            if !(s.loops.len() > depth && s.loops[depth].0 == ptr && s.loops[depth].1 == h) {
                s.loops.truncate(depth);
                s.next_loop += 1;
                let id = s.next_loop;
                // a deeper loop that runs over the same list as its parent loop is an evaluation of one instruction
                // (conditions of if / while / not, aliases), not a loop of its own
                let same_as_parent = depth > 0 && s.loops.len() == depth && s.loops[depth - 1].0 == ptr && s.loops[depth - 1].1 == h;
                s.loops.push((ptr, h, id));
                let parent = if depth > 0 { s.open.get(depth - 1).cloned().unwrap_or_default() } else { String::new() };
                let seq0 = s.seq;
                s.log.push(json!({"ev": "loop", "seq": seq0, "id": id, "depth": depth, "parent": parent, "eval": same_as_parent, "tab": table(instructions)}));
            }
            s.depth += 1;
            s.open.truncate(depth);
            s.open.push(name.clone());
            (s.seq, depth, s.loops[depth].2)
        };
        let direct = match instructions.get(line).map(|i| &i.instruction_type) {
            Some(InstructionType::Script(si)) => match &si.command { Some(c) => commands.get(c).map(|k| k.name() == name).unwrap_or(false), None => false },
            _ => false,
        };
        let first_is_cmd = arguments.get(0).map(|a| commands.exists(a)).unwrap_or(false);
        let arg0_defined = arguments.get(0).map(|a| variables.contains_key(a)).unwrap_or(false);
        let args_logged: Vec<Vec<u32>> = arguments.iter().map(|a| cps(a)).collect();
        let pre = variables.clone();
        let n_cmds = commands.commands.len();
        let r = self.inner.run(CommandInvocationContext { arguments, state: &mut *state, variables: &mut *variables, output_variable: output_variable.clone(),
            instructions, commands: &mut *commands, line, env: &mut *env });
        if commands.commands.len() != n_cmds || name.contains("Function") || name.contains("alias") || name.contains("Alias") {
            wrap_all(commands, &self.sh);
        }
        let (kind, out, goto, err) = match &r {
            CommandResult::Continue(v) => ("continue", v.clone(), json!({"k": "none", "label": [], "line": 0}), String::new()),
            CommandResult::GoTo(v, GoToValue::Label(l)) => ("goto", v.clone(), json!({"k": "label", "label": cps(l), "line": 0}), String::new()),
            CommandResult::GoTo(v, GoToValue::Line(n)) => ("goto", v.clone(), json!({"k": "line", "label": [], "line": n}), String::new()),
            CommandResult::Error(e) => ("error", None, json!({"k": "none", "label": [], "line": 0}), e.clone()),
            CommandResult::Crash(e) => ("crash", None, json!({"k": "none", "label": [], "line": 0}), e.clone()),
            CommandResult::Exit(v) => ("exit", v.clone(), json!({"k": "none", "label": [], "line": 0}), String::new()),
        };
        // variables after the command, as a difference to the variables before it
        let mut set = vec![];
        let mut del = vec![];
        let mut ks: Vec<&String> = variables.keys().collect();
        ks.sort();
        for k in ks { if pre.get(k) != variables.get(k) { set.push(json!({"k": cps(k), "v": cps(&variables[k])})); } }
        let mut pk: Vec<&String> = pre.keys().collect();
        pk.sort();
        for k in pk { if !variables.contains_key(k) { del.push(cps(k)); } }
        let mut s = self.sh.borrow_mut();
        s.depth = depth;
        s.loops.truncate(depth + 1);
        s.open.truncate(depth);
        s.log.push(json!({"ev": "call", "seq": seq, "depth": depth, "loop": loop_id, "line": line, "cmd": name, "direct": direct, "outvar": opt_cps(&output_variable),
            "args": args_logged, "pre": vars_json(&pre), "set": set, "del": del, "kind": kind, "has_out": out.is_some(), "out": cps(out.as_deref().unwrap_or("")),
            "goto": goto, "err": cps(&err), "first_is_cmd": first_is_cmd, "arg0_defined": arg0_defined}));
        r
    }
}

fn walk(dir: &std::path::Path, out: &mut Vec<String>) {
    if let Ok(rd) = std::fs::read_dir(dir) {
        let mut es: Vec<_> = rd.flatten().collect();
        es.sort_by_key(|e| e.file_name());
        for e in es {
            let p = e.path();
            if p.is_dir() { walk(&p, out); } else if p.extension().map(|x| x == "ds").unwrap_or(false) { out.push(p.to_string_lossy().into_owned()); }
        }
    }
}

/// run-record <out.ndjson> [<root> ...]: runs every test script under the roots (default /repo/test) through test_file
pub fn record(args: &[String]) {
    let mut out = Out::create(&args[0]);
    let sh = Rc::new(RefCell::new(Shared::default()));
    let mut ctx = sdk_context();
    wrap_all(&mut ctx.commands, &sh);
    let mut files = vec![];
    if args.len() > 1 { for r in &args[1..] { walk(std::path::Path::new(r), &mut files); } } else { walk(std::path::Path::new("/repo/test"), &mut files); }
    let home = std::env::current_dir().unwrap();
    std::env::set_current_dir("/repo/duckscript_sdk").unwrap();
    std::env::set_var("DUCKSCRIPT_TEST_RUST", "true");
    let mut s = Summary::new();
    let (mut events, mut nfiles, mut skipped) = (0u64, 0u64, 0u64);
    for f in files {
        if f.contains("/net/") || f.ends_with("helper.ds") || f.contains("/process/") || f.contains("/std/read") || f.contains("/thread/") || f.contains("sleep") {
            skipped += 1;
            continue;
        }
        { let mut g = sh.borrow_mut(); g.log.clear(); g.depth = 0; g.loops.clear(); g.open.clear(); }
        let script = format!("r = test_file \"{}\"\n", f);
        let (res, halted) = run_timed(&script, ctx.clone(), 30000);
        let _ = std::env::set_current_dir("/repo/duckscript_sdk");
        let status = if halted { "hang".to_string() } else { match res { Err(p) => format!("panic {}", p), Ok(Err(e)) => format!("failed {}", e.to_string().chars().take(120).collect::<String>()), Ok(Ok(_)) => "ok".to_string() } };
        if status.starts_with("panic") || status == "hang" {
            s.mismatch(json!({"file": f, "why": status}));
        }
        nfiles += 1;
        out.rec(&json!({"ev": "file", "file": f, "status": status}));
        let mut log: Vec<Value> = sh.borrow().log.clone();
        log.sort_by_key(|e| (e["seq"].as_u64().unwrap(), if e["ev"] == "loop" { 0 } else { 1 }));
        for mut e in log {
            e["file"] = json!(f);
            out.rec(&e);
            events += 1;
        }
    }
    let _ = std::env::set_current_dir(&home);
    s.set("files", json!(nfiles));
    s.set("skipped", json!(skipped));
    s.set("events", json!(events));
    s.finish();
}
