//! C10: the SDK's error protocol (on_error / get_last_error* / exit_on_error) against OnError.tla.
use crate::common::*;
use duckscript::types::error::ScriptError;
use duckscript::types::runtime::Context;
use serde_json::{json, Value};
use std::cell::RefCell;
use std::path::{Path, PathBuf};
use std::rc::Rc;

fn render(items: &[Value], dir: &Path) -> String {
    let mut t = String::from("fn ff\no = trigger_error ${1}\nend\narr = array 1 2\n");
    for (k, it) in items.iter().enumerate() {
        match it["k"].as_str().unwrap() {
            "eoe" => t.push_str(&format!("exit_on_error {}\n", it.get("sp").and_then(|x| x.as_str()).map(|x| x.to_string()).unwrap_or(it["on"].to_string()))),
            "seterr" => t.push_str("set_error se\n"),
            "obs" => t.push_str("e = get_last_error\nl = get_last_error_line\ns = get_last_error_source\nemit \"${e}\" \"${l}\" \"${s}\" \"${o}\"\n"),
            _ => {
                let m = it["m"].as_str().unwrap();
                let cmd = if k % 2 == 0 { "trigger_error" } else { "assert_error" };
                match it["ctx"].as_str().unwrap() {
                    "top" => t.push_str(&format!("o = {} \"{}\"\n", cmd, m)),
                    "fn" => t.push_str(&format!("ff \"{}\"\n", m)),
                    "loop" => t.push_str(&format!("for i in ${{arr}}\no = {} \"{}\"\nend\n", cmd, m)),
                    "branch" => t.push_str(&format!("if true\no = {} \"{}\"\nend\n", cmd, m)),
                    "script" => t.push_str("o = array_join nothandle ,\n"),
                    "loopscript" => t.push_str("for i in ${arr}\no = array_join nothandle ,\nend\n"),
                    "incl" => t.push_str(&format!("!include_files \"{}\"\n", dir.join(if m == "m1" { "inc one.ds" } else { "inc_two.ds" }).to_string_lossy())),
                    x => panic!("ctx {}", x),
                }
            }
        }
    }
    t
}
fn msg_norm(m: &str) -> String {
    if m.is_empty() || m == "m1" || m == "m two" || m == "se" { m.to_string() } else { "*".to_string() }
}
fn file_norm(s: &str, main: &Path, dir: &Path) -> String {
    if s.is_empty() { String::new() } else if Path::new(s) == main { "M".into() } else if Path::new(s).parent() == Some(dir) { "I".into() } else { format!("?{}", s) }
}

/// OnError!Exec-shaped observation of a real run
pub fn observe(base: &Context, log: &Log, items: &[Value], file_mode: bool, dir: &Path) -> Value {
    let main = dir.join("main.ds");
    let text = render(items, dir);
    log.borrow_mut().clear();
    let r = std::panic::catch_unwind(std::panic::AssertUnwindSafe(|| {
        if file_mode {
            std::fs::write(&main, &text).unwrap();
            duckscript::runner::run_script_file(&main.to_string_lossy(), base.clone(), Some(quiet_env()))
        } else {
            duckscript::runner::run_script(&text, base.clone(), Some(quiet_env()))
        }
    }));
    let obs: Vec<Value> = log.borrow().iter().map(|e| { let a = strs(&e["args"]);
        // after set_error the line / source are whatever the command leaves (not documented): normalised
        if a[0] == "se" { return json!({"msg": "se", "line": 0, "file": "", "o": a[3]}); }
        json!({"msg": msg_norm(&a[0]), "line": a[1].parse::<i64>().unwrap_or(0), "file": if file_mode { file_norm(&a[2], &main, dir) } else { if a[2].is_empty() { if a[0].is_empty() { "".to_string() } else { "M".to_string() } } else { file_norm(&a[2], &main, dir) } }, "o": a[3]}) }).collect();
    match r {
        Err(_) => json!({"panic": true}),
        Ok(Ok(_)) => json!({"ok": true, "obs": obs, "msg": "", "file": "", "line": 0}),
        Ok(Err(ScriptError::Runtime(m, meta))) => {
            let (line, src) = meta.map(|x| (x.line.unwrap_or(0), x.source.unwrap_or_default())).unwrap_or((0, String::new()));
            json!({"ok": false, "obs": obs, "msg": msg_norm(&m), "line": line, "file": if file_mode { file_norm(&src, &main, dir) } else if src.is_empty() { "M".to_string() } else { file_norm(&src, &main, dir) }})
        }
        Ok(Err(e)) => json!({"error": format!("{:?}", e)}),
    }
}

fn setup(work: &str, sub: &str) -> (Context, Log, PathBuf) {
    let dir: PathBuf = PathBuf::from(work).join(sub);
    let _ = std::fs::remove_dir_all(&dir);
    std::fs::create_dir_all(&dir).unwrap();
    let dir = dir.canonicalize().unwrap();
    std::fs::write(dir.join("inc one.ds"), "o = trigger_error \"m1\"\n").unwrap();
    std::fs::write(dir.join("inc_two.ds"), "o = assert_error \"m two\"\n").unwrap();
    let log: Log = Rc::new(RefCell::new(vec![]));
    let mut base = sdk_context();
    base.commands.set(Box::new(Emit { name: "emit".into(), log: log.clone(), with_vars: false })).unwrap();
    (base, log, dir)
}

pub fn replay(args: &[String]) {
    let (base, log, dir) = setup(&args[1], "c10_replay");
    let mut s = Summary::new();
    let (mut cases, mut runs) = (0u64, 0u64);
    let mut samples = vec![];
    tlc_lines(&args[0], "CASE", |rec| {
        cases += 1;
        let items = rec["items"].as_array().unwrap();
        for file_mode in [true, false] {
            runs += 1;
            let got = observe(&base, &log, items, file_mode, &dir);
            if got != rec["exp"] {
                s.mismatch(json!({"items": rec["items"], "mode": if file_mode { "file" } else { "text" }, "script": render(items, &dir), "got": got, "expected": rec["exp"]}));
            }
        }
        if samples.len() < 3 && cases % 997 == 0 {
            samples.push(json!({"script": render(items, &dir), "expected": rec["exp"]}));
        }
    });
    let _ = std::fs::remove_dir_all(&dir);
    s.set("cases", json!(cases));
    s.set("runs", json!(runs));
    s.set("samples", json!(samples));
    s.finish();
}

pub fn record(args: &[String]) {
    let seed: u64 = args[0].parse().unwrap();
    let n: usize = args[1].parse().unwrap();
    let mut out = Out::create(&args[2]);
    let (base, log, dir) = setup(&args[3], "c10_record");
    let mut r = Rng::new(seed);
    let mut s = Summary::new();
    let mut nitems = 0u64;
    for _ in 0..n {
        let len = 1 + r.below(30);
        let mut items = vec![];
        for _ in 0..len {
            items.push(match r.below(10) {
                0..=4 => { let ctx = *r.pick(&["top", "fn", "loop", "branch", "script", "loopscript", "incl"]); json!({"k": "fail", "ctx": ctx, "m": if ctx == "script" || ctx == "loopscript" { "*" } else { *r.pick(&["m1", "m two"]) }}) }
                5 => { let on = r.chance(1, 3); json!({"k": "eoe", "on": on, "sp": if on { *r.pick(&["true", "1", "yes"]) } else { *r.pick(&["false", "0", "no"]) }}) },
                6 => json!({"k": "seterr"}),
                _ => json!({"k": "obs"}),
            });
        }
        items.push(json!({"k": "obs"}));
        nitems += items.len() as u64;
        let file_mode = r.chance(1, 2);
        let got = observe(&base, &log, &items, file_mode, &dir);
        out.rec(&json!({"items": items, "mode": if file_mode { "file" } else { "text" }, "got": got}));
    }
    let _ = std::fs::remove_dir_all(&dir);
    s.set("programs", json!(n));
    s.set("items", json!(nitems));
    s.finish();
}
