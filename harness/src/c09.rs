//! C09: a command in condition position (if / elseif / while / not) or behind an alias must receive
//! the direct call's arguments.
use crate::common::*;
use duckscript::types::command::*;
use duckscript::types::runtime::Context;
use serde_json::{json, Value};
use std::cell::RefCell;
use std::collections::HashMap;
use std::rc::Rc;

#[derive(Clone)]
struct CapFalse {
    log: Rc<RefCell<Vec<Vec<String>>>>,
}
impl Command for CapFalse {
    fn name(&self) -> String {
        "cap".into()
    }
    fn clone_and_box(&self) -> Box<dyn Command> {
        Box::new(self.clone())
    }
    fn run(&self, ctx: CommandInvocationContext) -> CommandResult {
        self.log.borrow_mut().push(ctx.arguments.clone());
        CommandResult::Continue(Some("false".into()))
    }
}

pub const WRAPPERS: &[&str] = &["direct", "if", "elseif", "while", "not", "alias", "alias_stored"];

fn script_for(wrapper: &str, n: usize) -> String {
    let refs: String = (1..=n).map(|i| format!(" ${{v{}}}", i)).collect();
    match wrapper {
        "direct" => format!("cap{}\n", refs),
        "if" => format!("if cap{}\nend\n", refs),
        "elseif" => format!("if false\nelseif cap{}\nend\n", refs),
        "while" => format!("while cap{}\nend\n", refs),
        "not" => format!("x = not cap{}\n", refs),
        "alias" => format!("alias myc cap\nmyc{}\n", refs),
        // the first value is stored when the alias is defined, the others are given at the call
        "alias_stored" => if n == 0 { "alias myc cap\nmyc\n".to_string() } else { let rest: String = (2..=n).map(|i| format!(" ${{v{}}}", i)).collect(); format!("alias myc cap ${{v1}}\nmyc{}\n", rest) },
        _ => unreachable!(),
    }
}

pub struct Rig {
    base: Context,
    log: Rc<RefCell<Vec<Vec<String>>>>,
}
impl Rig {
    pub fn new() -> Rig {
        let log = Rc::new(RefCell::new(vec![]));
        let mut base = sdk_context();
        base.commands.set(Box::new(CapFalse { log: log.clone() })).unwrap();
        Rig { base, log }
    }
    /// Some(args) when cap was invoked exactly once, None otherwise (wrapper error, other command run, ...)
    pub fn observe(&self, wrapper: &str, args: &[String], extra: &HashMap<String, String>) -> Result<Option<Vec<String>>, String> {
        let mut ctx = self.base.clone();
        for (k, v) in extra {
            ctx.variables.insert(k.clone(), v.clone());
        }
        for (i, a) in args.iter().enumerate() {
            ctx.variables.insert(format!("v{}", i + 1), a.clone());
        }
        self.log.borrow_mut().clear();
        match run_guarded(&script_for(wrapper, args.len()), ctx, Some(quiet_env())) {
            Err(p) => Err(format!("panic: {}", p)),
            Ok(_) => {
                let l = self.log.borrow();
                Ok(if l.len() == 1 { Some(l[0].clone()) } else { None })
            }
        }
    }
}

fn seqs(v: &Value) -> Vec<String> {
    v.as_array().map(|a| a.iter().map(uncps).collect()).unwrap_or_default()
}

pub fn replay(args: &[String]) {
    let rig = Rig::new();
    let mut s = Summary::new();
    s.max_bad = 100000;
    let (mut cases, mut runs) = (0u64, 0u64);
    let mut samples = vec![];
    let mut extra = HashMap::new();
    extra.insert("a".to_string(), "X Y".to_string());
    tlc_lines(&args[0], "CASE", |rec| {
        for c in rec.as_array().unwrap() {
            cases += 1;
            let vals = seqs(&c["args"]);
            let model_ok = c["model"]["ok"].as_bool().unwrap();
            let model_args = seqs(&c["model"]["args"]);
            for w in WRAPPERS {
                runs += 1;
                let got = rig.observe(w, &vals, &extra);
                let ok = matches!(&got, Ok(Some(g)) if g == &vals);
                if !ok {
                    if *w == "direct" {
                        s.add("direct_broken", 1);
                    }
                    let same = match &got {
                        Ok(Some(g)) => model_ok && g == &model_args,
                        Ok(None) => !model_ok,
                        Err(_) => false,
                    };
                    s.mismatch(json!({"wrapper": w, "values": vals, "cls": c["cls"], "same_as_model": same,
                        "received": match &got { Ok(Some(g)) => json!(g), Ok(None) => json!("<<command not invoked once>>"), Err(e) => json!(e) }}));
                }
            }
            if samples.len() < 4 && cases % 997 == 0 {
                samples.push(json!({"values": vals, "wrappers": WRAPPERS}));
            }
        }
    });
    s.set("cases", json!(cases));
    s.set("runs", json!(runs));
    s.set("samples", json!(samples));
    s.finish();
}

/// the predicates named by the property: wrapped result must be the one determined by the direct call's output
pub fn predicates(args: &[String]) {
    let mut base = sdk_context();
    let log: Log = Rc::new(RefCell::new(vec![]));
    base.commands.set(Box::new(Emit { name: "emit".into(), log: log.clone(), with_vars: false })).unwrap();
    let mut s = Summary::new();
    s.max_bad = 100000;
    let (mut cases, mut runs) = (0u64, 0u64);
    let truthy = |o: &Option<String>| o.as_ref().map(|v| { let l = v.to_lowercase(); !(l.is_empty() || l == "0" || l == "false" || l == "no") }).unwrap_or(false);
    tlc_lines(&args[0], "CASE", |rec| {
        for c in rec.as_array().unwrap() {
            let vals = seqs(&c["args"]);
            if vals.len() != 1 {
                continue;
            }
            cases += 1;
            let v = &vals[0];
            for (pred, a, b) in [("equals", v.clone(), Some(v.clone())), ("equals", v.clone(), Some(format!("{}z", v))), ("contains", format!("q{}q", v), Some(v.clone())),
                                 ("starts_with", format!("{}q", v), Some(v.clone())), ("is_empty", v.clone(), None), ("ident", v.clone(), None)] {
                let mut ctx = base.clone();
                ctx.variables.insert("v1".into(), a.clone());
                let call = match &b { Some(b) => { ctx.variables.insert("v2".into(), b.clone()); format!("{} ${{v1}} ${{v2}}", pred) } None => format!("{} ${{v1}}", pred) };
                let script = format!("fn ident\nreturn ${{1}}\nend\no = {c}\nr = not {c}\nif {c}\nemit if\nend\nif false\nelseif {c}\nemit elseif\nend\n{al}", c = call, al = if pred == "ident" { "q = set ${o}\n".to_string() } else { format!("alias al {}\nq = al ${{v1}}{}\n", pred, if b.is_some() { " ${v2}" } else { "" }) });
                log.borrow_mut().clear();
                runs += 1;
                if std::env::var("VH_TRACE").is_ok() { eprintln!("TRY {} {:?} {:?}", pred, a, b); }
                let (res, halted) = run_timed(&script, ctx, 20000);
                if halted {
                    s.mismatch(json!({"pred": pred, "values": [a, b], "cls": c["cls"], "why": ["hang: halted by the watchdog"]}));
                    continue;
                }
                match res {
                    Err(p) => s.mismatch(json!({"pred": pred, "values": [a, b], "cls": c["cls"], "why": format!("panic {}", p)})),
                    Ok(Err(e)) => s.mismatch(json!({"pred": pred, "values": [a, b], "cls": c["cls"], "why": format!("run error {}", e)})),
                    Ok(Ok(cx)) => {
                        let o = cx.variables.get("o").cloned();
                        let t = truthy(&o);
                        let r = cx.variables.get("r").cloned();
                        let q = cx.variables.get("q").cloned();
                        let evs: Vec<String> = log.borrow().iter().map(|e| e["args"][0].as_str().unwrap_or("").to_string()).collect();
                        let mut why = vec![];
                        if r.as_deref() != Some(if t { "false" } else { "true" }) { why.push(format!("not gave {:?} for direct output {:?}", r, o)); }
                        if evs.contains(&"if".to_string()) != t { why.push(format!("if branch taken={} for direct output {:?}", !t, o)); }
                        if evs.contains(&"elseif".to_string()) != t { why.push(format!("elseif branch taken={} for direct output {:?}", !t, o)); }
                        if q != o { why.push(format!("alias gave {:?}, direct {:?}", q, o)); }
                        if !why.is_empty() {
                            s.mismatch(json!({"pred": pred, "values": [a, b], "cls": c["cls"], "why": why}));
                        }
                    }
                }
            }
        }
    });
    // a user-defined function behind an alias (property: "user functions" x "alias")
    let mut ctx = base.clone();
    ctx.variables.insert("v1".into(), "val".into());
    log.borrow_mut().clear();
    let (res, halted) = run_timed("fn ident\nreturn ${1}\nend\nalias al ident\nq = al ${v1}\nemit done\n", ctx, 4000);
    let q = match &res { Ok(Ok(c)) => c.variables.get("q").cloned(), _ => None };
    let emits = log.borrow().len();
    if halted || q.as_deref() != Some("val") || emits != 1 {
        s.mismatch(json!({"pred": "alias-of-function", "values": ["val"], "cls": [], "why": [format!("alias al ident; q = al val: halted_by_watchdog={} q={:?} emit_count={}", halted, q, emits)]}));
    }
    s.set("cases", json!(cases));
    s.set("runs", json!(runs));
    s.finish();
}

const VCLASS: &[char] = &[' ', ' ', '"', '\\', '#', '$', '{', '}', '%', '\n', '\r', '\t', '=', 'a', 'b', 'v', '1', 'é', '😀', '\u{a0}'];
pub fn record(args: &[String]) {
    let seed: u64 = args[0].parse().unwrap();
    let n: usize = args[1].parse().unwrap();
    let mut out = Out::create(&args[2]);
    let mut r = Rng::new(seed);
    let rig = Rig::new();
    let mut s = Summary::new();
    let extra = HashMap::new();
    for _ in 0..n {
        let nargs = 1 + r.below(3);
        let plain = r.chance(1, 2);
        let mut vals: Vec<String> = vec![];
        for _ in 0..nargs {
            let len = r.below(9);
            let mut v = String::new();
            for _ in 0..len {
                let c = if plain { char::from_u32(0x61 + r.below(26) as u32).unwrap() } else if r.chance(3, 4) { *r.pick(VCLASS) } else { char::from_u32(0x21 + r.below(0x3000) as u32).unwrap_or('x') };
                v.push(c);
            }
            if plain && r.chance(1, 3) { v = format!("{} {}\\", v, v); }
            vals.push(v);
        }
        let w = WRAPPERS[1 + r.below(6)];
        let got = rig.observe(w, &vals, &extra);
        let env: Vec<Value> = vals.iter().enumerate().map(|(i, v)| json!({"k": cps(&format!("v{}", i + 1)), "v": cps(v)})).collect();
        let (invoked, recv) = match &got { Ok(Some(g)) => (true, g.clone()), _ => (false, vec![]) };
        if let Err(e) = &got {
            s.mismatch(json!({"why": e, "values": vals, "wrapper": w}));
        }
        out.rec(&json!({"wrapper": w, "args": vals.iter().map(|v| cps(v)).collect::<Vec<_>>(), "env": env, "invoked": invoked, "received": recv.iter().map(|v| cps(v)).collect::<Vec<_>>()}));
    }
    s.set("cases", json!(n));
    s.finish();
}
