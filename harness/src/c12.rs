//! C12: arrays, maps and sets behind handles against Handles.tla.
use crate::c02::lit_arg as quote_arg;
use crate::common::*;
use duckscript::types::runtime::Context;
use serde_json::{json, Value};
use std::collections::{BTreeMap, BTreeSet};

fn run(ctx: Context, script: &str) -> Result<Context, String> {
    match run_guarded(script, ctx, Some(quiet_env())) {
        Err(p) => Err(format!("PANIC {}", p)),
        Ok(Err(e)) => Err(format!("ERR {}", e)),
        Ok(Ok(c)) => Ok(c),
    }
}
/// abstract id -> real handle (ids of released handles stay mapped: use-after-release)
pub type Bij = BTreeMap<u64, String>;
fn real(bij: &Bij, r: &str) -> String {
    match r {
        "bogus" => "handle:bogus0000000000000".to_string(),
        "" => String::new(),
        _ => bij.get(&r[1..].parse::<u64>().unwrap()).cloned().unwrap_or_else(|| "handle:never0000000000000".to_string()),
    }
}
fn is_ref(s: &str) -> bool {
    s == "bogus" || (s.len() >= 2 && s.starts_with('h') && s[1..].chars().all(|c| c.is_ascii_digit()))
}
/// "@h3" = the handle text of h3 used as a plain value / key
fn is_handle_value(s: &str) -> bool {
    s.starts_with('@') && is_ref(&s[1..]) && &s[1..] != "bogus"
}
/// real text -> abstract text: a real handle text becomes "@h<id>"
fn abs(bij: &Bij, s: &str) -> String {
    if !s.contains("handle:") { return s.to_string(); }
    let mut t = s.to_string();
    for (id, h) in bij { if t.contains(h.as_str()) { t = t.replace(h.as_str(), &format!("@h{}", id)); } }
    t
}
fn abs_coll(bij: &Bij, c: Coll) -> Coll {
    match c {
        Coll::List(v) => Coll::List(v.iter().map(|x| abs(bij, x)).collect()),
        Coll::Map(m) => Coll::Map(m.iter().map(|(k, v)| (abs(bij, k), abs(bij, v))).collect()),
        Coll::Set(s) => Coll::Set(s.iter().map(|x| abs(bij, x)).collect()),
        Coll::Gone => Coll::Gone,
    }
}
pub fn script_of(op: &Value, bij: &Bij) -> String {
    let cmd = op["cmd"].as_str().unwrap();
    let mut s = format!("o = {}", cmd);
    let h = op["h"].as_str().unwrap();
    if !h.is_empty() {
        s.push(' ');
        s.push_str(&real(bij, h));
    }
    for a in strs(&op["args"]) {
        s.push(' ');
        if cmd == "array_concat" && is_ref(&a) { s.push_str(&real(bij, &a)); } else if is_handle_value(&a) { s.push_str(&real(bij, &a[1..])); } else { s.push_str(&quote_arg(&a)); }
    }
    s.push('\n');
    s
}
fn read_list(ctx: &Context, h: &str) -> Result<Vec<String>, String> {
    crate::c11::read_array(ctx, h)
}
#[derive(Debug, PartialEq, Clone)]
pub enum Coll {
    List(Vec<String>),
    Map(BTreeMap<String, String>),
    Set(BTreeSet<String>),
    Gone,
}
/// the content behind a real handle, read through the public commands only
pub fn read_coll(ctx: &Context, h: &str) -> Result<Coll, String> {
    let mut c = ctx.clone();
    c.variables.insert("vh_h".into(), h.to_string());
    let c = run(c, "vh_a = is_array ${vh_h}\nvh_m = is_map ${vh_h}\nvh_s = is_set ${vh_h}\n")?;
    let g = |k: &str| c.variables.get(k).map(|s| s == "true").unwrap_or(false);
    match (g("vh_a"), g("vh_m"), g("vh_s")) {
        (true, false, false) => Ok(Coll::List(read_list(&c, h)?)),
        (false, true, false) => {
            let c2 = run(c.clone(), "vh_k = map_keys ${vh_h}\n")?;
            let kh = c2.variables.get("vh_k").cloned().unwrap_or_default();
            let keys = read_list(&c2, &kh)?;
            let mut m = BTreeMap::new();
            let mut c3 = c2;
            for k in keys {
                c3.variables.insert("vh_key".into(), k.clone());
                c3 = run(c3, "vh_v = map_get ${vh_h} ${vh_key}\n")?;
                m.insert(k, c3.variables.get("vh_v").cloned().unwrap_or_default());
            }
            Ok(Coll::Map(m))
        }
        (false, false, true) => {
            let c2 = run(c.clone(), "vh_k = set_to_array ${vh_h}\n")?;
            let kh = c2.variables.get("vh_k").cloned().unwrap_or_default();
            Ok(Coll::Set(read_list(&c2, &kh)?.into_iter().collect()))
        }
        (false, false, false) => Ok(Coll::Gone),
        x => Err(format!("handle answers to several kinds {:?}", x)),
    }
}
fn exp_coll(v: &Value) -> Coll {
    match v["k"].as_str().unwrap() {
        "list" => Coll::List(strs(&v["v"])),
        "set" => Coll::Set(strs(&v["v"]).into_iter().collect()),
        _ => { let mut m = BTreeMap::new(); if let Some(o) = v["v"].as_object() { for (k, x) in o { m.insert(k.clone(), x.as_str().unwrap().to_string()); } } Coll::Map(m) }
    }
}
/// expected table id -> collection (hs is a JSON array when ids are 1..n, an object otherwise)
fn exp_table(st: &Value) -> BTreeMap<u64, Coll> {
    let mut t = BTreeMap::new();
    match &st["hs"] {
        Value::Array(a) => for (i, v) in a.iter().enumerate() { t.insert(i as u64 + 1, exp_coll(v)); },
        Value::Object(o) => for (k, v) in o { t.insert(k.parse().unwrap(), exp_coll(v)); },
        _ => {}
    }
    t
}
/// compare the whole abstract table with the real one (every id ever issued)
fn table_matches(ctx: &Context, bij: &Bij, st: &Value) -> Result<(), String> {
    let exp = exp_table(st);
    let next = st["next"].as_u64().unwrap();
    for id in 1..=next {
        let h = bij.get(&id).ok_or(format!("no real handle for id {}", id))?;
        let got = abs_coll(bij, read_coll(ctx, h)?);
        let want = exp.get(&id).cloned().unwrap_or(Coll::Gone);
        if got != want {
            return Err(format!("h{} holds {:?}, expected {:?}", id, got, want));
        }
    }
    let live: Vec<&String> = bij.values().collect();
    let distinct: BTreeSet<&String> = live.iter().cloned().collect();
    if distinct.len() != live.len() {
        return Err("two handles are equal".into());
    }
    Ok(())
}
/// rewrite an array made from a set / map keys into the model's canonical order
fn normalise(ctx: Context, h: &str) -> Result<Context, String> {
    let mut items = read_list(&ctx, h)?;
    let order = ["", "0", "1", "2", "3", "4", "k", "u", "v"];
    items.sort_by_key(|x| order.iter().position(|o| o == x).unwrap_or(99));
    let mut c = ctx;
    for (i, it) in items.iter().enumerate() {
        c = run(c, &format!("vh_x = array_set {} {} {}\n", h, i, quote_arg(it)))?;
    }
    Ok(c)
}
/// apply one operation; returns (context, output); updates the bijection when a handle is created
pub fn step(ctx: Context, bij: &mut Bij, op: &Value, new_id: u64) -> Result<(Context, Option<String>), String> {
    let mut c = run(ctx, &script_of(op, bij))?;
    let o = c.variables.remove("o");
    let cmd = op["cmd"].as_str().unwrap();
    if let Some(h) = &o {
        let creates = ["array", "map", "set_new", "range", "array_concat", "map_keys", "set_to_array", "set_from_array"].contains(&cmd);
        if creates && h.starts_with("handle:") {
            bij.insert(new_id, h.clone());
            if cmd == "map_keys" || cmd == "set_to_array" {
                c = normalise(c, h)?;
            }
        }
    }
    Ok((c, o))
}

pub fn replay(args: &[String]) {
    let every: u64 = args.get(1).and_then(|x| x.parse().ok()).unwrap_or(1);
    let base = sdk_context();
    let mut s = Summary::new();
    let (mut states, mut trans) = (0u64, 0u64);
    let mut samples = vec![];
    tlc_lines(&args[0], "REPLAY", |rec| {
        states += 1;
        let mut ctx = base.clone();
        let mut bij = Bij::new();
        let mut created = 0u64;
        for op in rec["path"].as_array().cloned().unwrap_or_default() {
            match step(ctx, &mut bij, &op, created + 1) {
                Ok((c, _)) => { ctx = c; created = bij.len() as u64; }
                Err(e) => { s.mismatch(json!({"kind": "path", "path": rec["path"], "op": op, "why": e})); return; }
            }
        }
        if let Err(e) = table_matches(&ctx, &bij, &rec["st"]) {
            s.mismatch(json!({"kind": "state", "path": rec["path"], "why": e}));
            return;
        }
        for (k, nx) in rec["next"].as_array().unwrap().iter().enumerate() {
            if (states + k as u64) % every != 0 {
                continue;
            }
            if nx.get("issued").and_then(|x| x.as_bool()) == Some(false) {
                continue;
            }
            trans += 1;
            let mut b2 = bij.clone();
            let next_id = rec["st"]["next"].as_u64().unwrap() + 1;
            match step(ctx.clone(), &mut b2, &nx["op"], next_id) {
                Err(e) => s.mismatch(json!({"kind": "transition", "path": rec["path"], "op": nx["op"], "why": e})),
                Ok((c, o)) => {
                    let mut why = vec![];
                    let eo = &nx["out"];
                    let o = if eo["k"] == "lit" { o.map(|x| abs(&b2, &x)) } else { o };
                    match eo["k"].as_str().unwrap() {
                        "lit" => if o.as_deref() != Some(eo["v"].as_str().unwrap()) && !(eo["v"] == "" && o.is_none()) { why.push(format!("output {:?} expected {:?}", o, eo["v"])); },
                        "none" => if o.is_some() { why.push(format!("output {:?} expected none", o)); },
                        "class" => if o.as_deref() == Some("false") { why.push("reported failure".into()); },
                        "new" => if !o.as_deref().map(|h| h.starts_with("handle:")).unwrap_or(false) { why.push(format!("no new handle: {:?}", o)); },
                        _ => {}
                    }
                    if why.is_empty() {
                        if let Err(e) = table_matches(&c, &b2, &nx["st"]) { why.push(e); }
                    }
                    if !why.is_empty() {
                        s.mismatch(json!({"kind": "transition", "path": rec["path"], "op": nx["op"], "why": why.join("; ")}));
                    }
                }
            }
        }
        if samples.len() < 3 && states % 501 == 0 {
            samples.push(json!({"path": rec["path"], "table": rec["st"]}));
        }
    });
    s.set("states", json!(states));
    s.set("transitions", json!(trans));
    s.set("samples", json!(samples));
    s.finish();
}

fn coll_json(id: u64, c: &Coll) -> Option<Value> {
    match c {
        Coll::List(v) => Some(json!({"id": id, "k": "list", "v": v})),
        Coll::Map(m) => Some(json!({"id": id, "k": "map", "v": m.iter().map(|(k, v)| json!([k, v])).collect::<Vec<_>>()})),
        Coll::Set(s) => Some(json!({"id": id, "k": "set", "v": s.iter().collect::<Vec<_>>()})),
        Coll::Gone => None,
    }
}
const VALS: &[&str] = &["u", "v", "", "a b", "é😀", "handle:zzzzzzzzzzzzzzzzzzzz", "0", "false", "k", "#x", "\"q\"", " ", "a\nb", "=", "say \"hi\"", "true", ",", "\t"];
pub fn record(args: &[String]) {
    let seed: u64 = args[0].parse().unwrap();
    let nhist: usize = args[1].parse().unwrap();
    let len: usize = args[2].parse().unwrap();
    let mut out = Out::create(&args[3]);
    let base = sdk_context();
    let mut r = Rng::new(seed);
    let mut s = Summary::new();
    let mut events = 0u64;
    for hist in 0..nhist {
        let mut ctx = base.clone();
        let mut bij = Bij::new();
        out.rec(&json!({"ev": "reset"}));
        events += 1;
        let n = 1 + r.below(len);
        // every third history opens with a fixed probe: collections of values that carry syntax characters, searched, joined and
        // converted by the script-implemented commands (the values must be stored and compared verbatim)
        let mut pending: Vec<(&str, String, Vec<String>)> = vec![];
        if hist % 3 == 0 {
            let sp = ["#x", "a\nb", "say \"hi\"", " ", "=", "\t", "a b", ""];
            let (v1, v2, v3) = (sp[hist / 3 % sp.len()].to_string(), sp[(hist / 3 + 3) % sp.len()].to_string(), sp[(hist / 3 + 5) % sp.len()].to_string());
            pending = vec![("array", String::new(), vec![v1.clone(), v2.clone(), v3.clone()]), ("array_contains", "h1".into(), vec![v1.clone()]), ("array_contains", "h1".into(), vec![v3.clone()]),
                           ("array_contains", "h1".into(), vec!["absent".into()]), ("array_join", "h1".into(), vec![",".into()]), ("set_from_array", "h1".into(), vec![]),
                           ("set_contains", "h2".into(), vec![v2.clone()]), ("map", String::new(), vec![]), ("map_put", "h3".into(), vec![v1.clone(), v2.clone()]),
                           ("map_contains_value", "h3".into(), vec![v2.clone()]), ("map_contains_key", "h3".into(), vec![v1.clone()]), ("map_get", "h3".into(), vec![v1.clone()])];
            pending.reverse();
        }
        for _ in 0..(n + pending.len()) {
            let created = bij.len() as u64;
            let live_refs: Vec<String> = (1..=created).map(|i| format!("h{}", i)).collect();
            let href = if created == 0 || r.chance(1, 12) { "bogus".to_string() } else { r.pick(&live_refs).clone() };
            let hval = |r: &mut Rng| if created > 0 && r.chance(1, 6) { format!("@{}", r.pick(&live_refs)) } else { r.pick(VALS).to_string() };
            let val = hval(&mut r);
            let idx = if r.chance(1, 8) { "zz".to_string() } else { r.below(6).to_string() };
            let can_create = created < 40;
            let (cmd, h, a): (&str, String, Vec<String>) = match r.below(40) {
                0 | 1 if can_create => ("array", String::new(), (0..r.below(4)).map(|_| r.pick(VALS).to_string()).collect()),
                2 if can_create => ("map", String::new(), vec![]),
                3 if can_create => ("set_new", String::new(), (0..r.below(4)).map(|_| r.pick(VALS).to_string()).collect()),
                4 if can_create => ("range", String::new(), vec![r.below(5).to_string(), r.below(8).to_string()]),
                5 => (*r.pick(&["is_array", "is_map", "is_set"]), href, vec![]),
                6 => ("release", href, vec![]),
                7..=9 => ("array_push", href, vec![val]),
                10 => ("array_pop", href, vec![]),
                11 | 12 => ("array_get", href, vec![idx]),
                13 => ("array_set", href, vec![idx, val]),
                14 => ("array_remove", href, vec![idx]),
                15 => (*r.pick(&["array_clear", "array_length", "array_is_empty"]), href, vec![]),
                16 => ("array_contains", href, vec![val]),
                17 => ("array_join", href, vec![",".into()]),
                18 if can_create => ("array_concat", href, vec![if created > 0 { r.pick(&live_refs).clone() } else { "bogus".into() }]),
                19..=21 => ("map_put", href, vec![hval(&mut r), val]),
                22 => ("map_get", href, vec![val]),
                23 => ("map_remove", href, vec![val]),
                24 => (*r.pick(&["map_size", "map_clear", "map_is_empty"]), href, vec![]),
                25 if can_create => ("map_keys", href, vec![]),
                26 => (*r.pick(&["map_contains_key", "map_contains_value"]), href, vec![val]),
                27..=29 => ("set_put", href, vec![val]),
                30 => ("set_remove", href, vec![val]),
                31 => ("set_contains", href, vec![val]),
                32 => (*r.pick(&["set_size", "set_clear", "set_is_empty"]), href, vec![]),
                33 if can_create => ("set_to_array", href, vec![]),
                34 if can_create => ("set_from_array", href, vec![]),
                _ => ("array_length", href, vec![]),
            };
            let (cmd, h, a) = match pending.pop() { Some(x) => x, None => (cmd, h, a) };
            let op = json!({"cmd": cmd, "h": h, "args": a});
            let before = bij.len();
            let mut b2 = bij.clone();
            // no normalisation here: the trace spec accepts any order for arrays made from sets / map keys
            let res = run(ctx.clone(), &script_of(&op, &b2));
            let (err, o, c) = match res { Err(e) => (e, None, ctx.clone()), Ok(mut c) => { let o = c.variables.remove("o"); (String::new(), o, c) } };
            let creates = ["array", "map", "set_new", "range", "array_concat", "map_keys", "set_to_array", "set_from_array"].contains(&cmd);
            let mut created_now = false;
            if let Some(hd) = &o { if creates && hd.starts_with("handle:") && hd != "handle:zzzzzzzzzzzzzzzzzzzz" { b2.insert(before as u64 + 1, hd.clone()); created_now = true; } }
            let mut table = vec![];
            let mut rerr = err.clone();
            for (id, hd) in &b2 {
                match read_coll(&c, hd) { Ok(cl) => if let Some(j) = coll_json(*id, &abs_coll(&b2, cl)) { table.push(j); }, Err(e) => rerr = e }
            }
            let distinct = b2.values().collect::<BTreeSet<_>>().len() == b2.len();
            out.rec(&json!({"ev": "op", "hist": hist, "cmd": cmd, "h": h, "args": a, "err": rerr, "has_out": o.is_some(), "out": if created_now { o.clone().unwrap_or_default() } else { abs(&b2, &o.clone().unwrap_or_default()) },
                            "created": created_now, "table": table, "next": b2.len(), "distinct": distinct}));
            events += 1;
            ctx = c;
            bij = b2;
        }
    }
    s.set("histories", json!(nhist));
    s.set("events", json!(events));
    s.finish();
}

/// debugging aid: replay the operations of one recorded history and print every output and the last error
pub fn debug(args: &[String]) {
    let ops = ndjson(&args[0]);
    let mut ctx = sdk_context();
    let mut bij = Bij::new();
    for op in ops {
        let next = bij.len() as u64 + 1;
        let script = script_of(&op, &bij);
        match step(ctx.clone(), &mut bij, &op, next) {
            Ok((c, o)) => { ctx = c; let e = run(ctx.clone(), "vh_e = get_last_error\n").ok().and_then(|c| c.variables.get("vh_e").cloned()); println!("{} -> {:?} (last error {:?})", script.trim(), o, e); }
            Err(e) => println!("{} -> ERR {}", script.trim(), e),
        }
    }
}
