//! Shared helpers: code-point JSON, TLC output parsing, normalised instructions, harness commands.
#![allow(dead_code)]
use duckscript::parser;
use duckscript::types::command::*;
use duckscript::types::env::Env;
use duckscript::types::error::ScriptError;
use duckscript::types::instruction::*;
use duckscript::types::runtime::Context;
use serde_json::{json, Value};
use std::cell::RefCell;
use std::collections::BTreeMap;
use std::io::{BufRead, Write};
use std::rc::Rc;

pub fn cps(s: &str) -> Vec<u32> {
    s.chars().map(|c| c as u32).collect()
}
pub fn uncps(v: &Value) -> String {
    v.as_array().map(|a| a.iter().map(|x| char::from_u32(x.as_u64().unwrap() as u32).unwrap()).collect()).unwrap_or_default()
}
pub fn opt_cps(o: &Option<String>) -> Vec<Vec<u32>> {
    match o {
        Some(s) => vec![cps(s)],
        None => vec![],
    }
}
pub fn strs(v: &Value) -> Vec<String> {
    v.as_array().map(|a| a.iter().map(|s| s.as_str().unwrap_or("").to_string()).collect()).unwrap_or_default()
}

/// xorshift generator: all random choices of the harness derive from VERIF_SEED
pub struct Rng(pub u64);
impl Rng {
    pub fn new(seed: u64) -> Rng {
        Rng(seed.wrapping_mul(0x9E3779B97F4A7C15) | 1)
    }
    pub fn next(&mut self) -> u64 {
        self.0 ^= self.0 << 13;
        self.0 ^= self.0 >> 7;
        self.0 ^= self.0 << 17;
        self.0
    }
    pub fn below(&mut self, m: usize) -> usize {
        if m == 0 {
            0
        } else {
            (self.next() % m as u64) as usize
        }
    }
    pub fn chance(&mut self, num: usize, den: usize) -> bool {
        self.below(den) < num
    }
    pub fn pick<'a, T>(&mut self, v: &'a [T]) -> &'a T {
        &v[self.below(v.len())]
    }
}

/// iterate the JSON payloads of TLC lines `<<"TAG", "json">>`
pub fn tlc_lines(path: &str, tag: &str, mut f: impl FnMut(Value)) {
    let file = std::fs::File::open(path).expect("open tlc output");
    let pre = format!("<<\"{}\", \"", tag);
    for line in std::io::BufReader::new(file).lines() {
        let line = match line {
            Ok(l) => l,
            Err(_) => continue,
        };
        if !line.starts_with(&pre) {
            continue;
        }
        let start = pre.len() - 1;
        let end = match line.rfind("\">>") {
            Some(e) => e + 1,
            None => continue,
        };
        let inner: String = serde_json::from_str(&line[start..end]).expect("tla string");
        f(serde_json::from_str(&inner).expect("json payload"));
    }
}

pub fn ndjson(path: &str) -> Vec<Value> {
    let file = std::fs::File::open(path).expect("open ndjson");
    std::io::BufReader::new(file).lines().filter_map(|l| l.ok()).filter(|l| !l.trim().is_empty()).map(|l| serde_json::from_str(&l).expect("ndjson line")).collect()
}

pub struct Out(pub std::io::BufWriter<std::fs::File>);
impl Out {
    pub fn create(path: &str) -> Out {
        Out(std::io::BufWriter::new(std::fs::File::create(path).expect("create output")))
    }
    pub fn rec(&mut self, v: &Value) {
        writeln!(self.0, "{}", v).unwrap();
    }
}

pub fn err_kind(e: &ScriptError) -> (&'static str, Option<usize>, Option<String>) {
    let (k, m) = match e {
        ScriptError::ErrorReadingFile(f, _) => return ("ErrorReadingFile", None, Some(f.clone())),
        ScriptError::Initialization(_) => return ("Initialization", None, None),
        ScriptError::Runtime(_, m) => ("Runtime", m.clone()),
        ScriptError::PreProcessNoCommandFound(m) => ("PreProcessNoCommandFound", Some(m.clone())),
        ScriptError::ControlWithoutValidValue(m) => ("ControlWithoutValidValue", Some(m.clone())),
        ScriptError::InvalidControlLocation(m) => ("InvalidControlLocation", Some(m.clone())),
        ScriptError::MissingEndQuotes(m) => ("MissingEndQuotes", Some(m.clone())),
        ScriptError::MissingOutputVariableName(m) => ("MissingOutputVariableName", Some(m.clone())),
        ScriptError::InvalidEqualsLocation(m) => ("InvalidEqualsLocation", Some(m.clone())),
        ScriptError::InvalidQuotesLocation(m) => ("InvalidQuotesLocation", Some(m.clone())),
        ScriptError::EmptyLabel(m) => ("EmptyLabel", Some(m.clone())),
        ScriptError::UnknownPreProcessorCommand(m) => ("UnknownPreProcessorCommand", Some(m.clone())),
    };
    match m {
        Some(mi) => (k, mi.line, mi.source),
        None => (k, None, None),
    }
}

/// Parser!Norm of a real instruction
pub fn norm_instruction(ins: &Instruction) -> Value {
    match &ins.instruction_type {
        InstructionType::Empty => json!({"t":"empty"}),
        InstructionType::PreProcess(p) => json!({"t":"pre","cmd":cps(p.command.as_deref().unwrap_or("")),
            "args":p.arguments.clone().unwrap_or_default().iter().map(|a| cps(a)).collect::<Vec<_>>()}),
        InstructionType::Script(s) => json!({"t":"script","label":opt_cps(&s.label),"out":opt_cps(&s.output),"cmd":opt_cps(&s.command),
            "args":s.arguments.clone().unwrap_or_default().iter().map(|a| cps(a)).collect::<Vec<_>>()}),
    }
}

/// Parser!NormText of the real parse_text, with the line numbers the instructions carry
pub fn parse_norm(text: &str) -> (Value, Vec<Option<usize>>) {
    let r = std::panic::catch_unwind(|| parser::parse_text(text));
    match r {
        Err(_) => (json!({"t":"panic"}), vec![]),
        Ok(Err(e)) => {
            let (k, line, _) = err_kind(&e);
            (json!({"t":"err","k":k,"line":line.unwrap_or(0)}), vec![])
        }
        Ok(Ok(ins)) => {
            let lines = ins.iter().map(|i| i.meta_info.line).collect();
            (json!({"t":"ok","ins":ins.iter().map(norm_instruction).collect::<Vec<_>>()}), lines)
        }
    }
}

pub fn quiet_env() -> Env {
    Env::new(Some(Box::new(std::io::sink())), Some(Box::new(std::io::sink())), None)
}

pub fn sdk_context() -> Context {
    let mut c = Context::new();
    duckscriptsdk::load(&mut c.commands).expect("sdk load");
    c
}

pub fn vars_json(v: &std::collections::HashMap<String, String>) -> Value {
    let m: BTreeMap<_, _> = v.iter().collect();
    json!(m)
}

// ---------------------------------------------------------------- harness commands
pub type Log = Rc<RefCell<Vec<Value>>>;

/// `emit a b c`: logs line, arguments and (optionally) the variables it sees
#[derive(Clone)]
pub struct Emit {
    pub name: String,
    pub log: Log,
    pub with_vars: bool,
}
impl Command for Emit {
    fn name(&self) -> String {
        self.name.clone()
    }
    fn clone_and_box(&self) -> Box<dyn Command> {
        Box::new(self.clone())
    }
    fn run(&self, ctx: CommandInvocationContext) -> CommandResult {
        let mut e = json!({"ev": self.name, "line": ctx.line, "args": ctx.arguments});
        if self.with_vars {
            e["vars"] = vars_json(ctx.variables);
        }
        self.log.borrow_mut().push(e);
        // a truthy output that no line stores: a value left over from the last statement of a function body must not become
        // the value of a call that ends without `return <value>`
        CommandResult::Continue(Some("emitted".into()))
    }
}

/// `dec n` -> max(n-1, 0)
#[derive(Clone)]
pub struct Dec;
impl Command for Dec {
    fn name(&self) -> String {
        "dec".into()
    }
    fn clone_and_box(&self) -> Box<dyn Command> {
        Box::new(self.clone())
    }
    fn run(&self, ctx: CommandInvocationContext) -> CommandResult {
        let n: i64 = ctx.arguments.get(0).and_then(|x| x.parse().ok()).unwrap_or(0);
        CommandResult::Continue(Some((if n > 0 { n - 1 } else { 0 }).to_string()))
    }
}

pub fn run_guarded(text: &str, ctx: Context, env: Option<Env>) -> Result<Result<Context, ScriptError>, String> {
    std::panic::catch_unwind(std::panic::AssertUnwindSafe(|| duckscript::runner::run_script(text, ctx, env))).map_err(|p| {
        if let Some(s) = p.downcast_ref::<String>() {
            s.clone()
        } else if let Some(s) = p.downcast_ref::<&str>() {
            s.to_string()
        } else {
            "panic".to_string()
        }
    })
}

pub struct Summary {
    pub map: serde_json::Map<String, Value>,
    pub bad: Vec<Value>,
    pub max_bad: usize,
    pub nbad: usize,
}
impl Summary {
    pub fn new() -> Summary {
        Summary { map: serde_json::Map::new(), bad: vec![], max_bad: 200, nbad: 0 }
    }
    pub fn set(&mut self, k: &str, v: Value) {
        self.map.insert(k.to_string(), v);
    }
    pub fn add(&mut self, k: &str, n: u64) {
        let cur = self.map.get(k).and_then(|x| x.as_u64()).unwrap_or(0);
        self.map.insert(k.to_string(), json!(cur + n));
    }
    pub fn mismatch(&mut self, v: Value) {
        self.nbad += 1;
        if self.bad.len() < self.max_bad {
            self.bad.push(v);
        }
    }
    pub fn finish(mut self) {
        self.map.insert("mismatches".into(), json!(self.nbad));
        self.map.insert("bad".into(), json!(self.bad));
        println!("{}", Value::Object(self.map));
    }
}

/// run_script under a watchdog: a helper thread raises the run's own halt flag after `ms`
/// milliseconds unless the run finished first (the flag belongs to this run only, so a slow run can
/// never halt a later one).  Returns (result, halted_by_watchdog).  Loops inside a single command
/// do not poll the flag; callers that may meet those use a subprocess (see c07).
pub fn run_timed(text: &str, ctx: Context, ms: u64) -> (Result<Result<Context, ScriptError>, String>, bool) {
    use std::sync::atomic::{AtomicBool, AtomicUsize, Ordering};
    use std::sync::Arc;
    // the limits are generous (a loaded machine must not look like a hang); once several runs of this process have
    // really been stopped by the watchdog the code under test does loop, and the remaining runs get a short limit
    static FIRED: AtomicUsize = AtomicUsize::new(0);
    let ms = if FIRED.load(Ordering::SeqCst) > 8 { ms.min(2000) } else { ms };
    let halt = Arc::new(AtomicBool::new(false));
    let fired = Arc::new(AtomicBool::new(false));
    let (tx, rx) = std::sync::mpsc::channel::<()>();
    let (h2, f2) = (halt.clone(), fired.clone());
    let t = std::thread::spawn(move || {
        if let Err(std::sync::mpsc::RecvTimeoutError::Timeout) = rx.recv_timeout(std::time::Duration::from_millis(ms)) {
            f2.store(true, Ordering::SeqCst);
            h2.store(true, Ordering::SeqCst);
        }
    });
    let env = Env::new(Some(Box::new(std::io::sink())), Some(Box::new(std::io::sink())), Some(halt));
    let r = run_guarded(text, ctx, Some(env));
    drop(tx);
    let _ = t.join();
    if fired.load(Ordering::SeqCst) { FIRED.fetch_add(1, Ordering::SeqCst); }
    (r, fired.load(Ordering::SeqCst))
}
