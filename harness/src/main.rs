mod common;
mod c01;
mod c02;
mod c09;
mod c06;
mod c15;
mod c03;
mod c13;
mod c11;
mod c04;
mod c14;
mod c10;
mod c18;
mod c12;
mod c19;
mod c16;
mod c17;
mod c20;
mod c07;
mod repo;
mod runlog;

fn main() {
    std::panic::set_hook(Box::new(|_| {}));
    let args: Vec<String> = std::env::args().collect();
    if args.len() < 2 {
        eprintln!("usage: vh <subcommand> ...");
        std::process::exit(2);
    }
    let rest = &args[2..];
    match args[1].as_str() {
        "c01-replay" => c01::replay(rest),
        "c01-record" => c01::record(rest),
        "c08-replay" => c01::c08_replay(rest),
        "c08-malformed" => c01::c08_malformed(rest),
        "c08-record" => c01::c08_record(rest),
        "c02-replay" => c02::replay(rest),
        "c02-record" => c02::record(rest),
        "c09-replay" => c09::replay(rest),
        "c09-predicates" => c09::predicates(rest),
        "c09-record" => c09::record(rest),
        "c06-replay" => c06::replay(rest),
        "c06-record" => c06::record(rest),
        "c15-replay" => c15::replay(rest),
        "c15-record" => c15::record(rest),
        "c03-replay" => c03::replay(rest),
        "c03-record" => c03::record(rest),
        "c13-threads" => c13::threads(rest),
        "c11-replay" => c11::replay(rest),
        "c11-record" => c11::record(rest),
        "c04-replay" => c04::replay(rest),
        "c04-record" => c04::record(rest),
        "c05-replay" => c04::replay_func(rest),
        "c05-record" => c04::record_func(rest),
        "c14-replay" => c14::replay(rest),
        "c14-record" => c14::record(rest),
        "c10-replay" => c10::replay(rest),
        "c10-record" => c10::record(rest),
        "c18-replay" => c18::replay(rest),
        "c18-record" => c18::record(rest),
        "c12-replay" => c12::replay(rest),
        "c12-record" => c12::record(rest),
        "c12-debug" => c12::debug(rest),
        "c19-replay" => c19::replay(rest),
        "c19-record" => c19::record(rest),
        "c16-unit" => c16::unit(rest),
        "c16-replay" => c16::replay(rest),
        "c16-record" => c16::record(rest),
        "c17-replay" => c17::replay(rest),
        "c17-record" => c17::record(rest),
        "c20-replay" => c20::replay(rest),
        "c20-record" => c20::record(rest),
        "c07-names" => c07::names(rest),
        "c07-worker" => c07::worker(rest),
        "c07-run" => c07::run(rest),
        "repo-record" => repo::record(rest),
        "run-record" => runlog::record(rest),
        "lit-selftest" => c02::lit_selftest(rest),
        x => {
            eprintln!("unknown subcommand {}", x);
            std::process::exit(2);
        }
    }
}
