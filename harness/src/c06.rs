//! C06: condition statements through the four consumers not / if / elseif / while.
use crate::c02::quote_arg;
use crate::common::*;
use duckscript::types::runtime::Context;
use serde_json::{json, Value};
use std::cell::RefCell;
use std::rc::Rc;

pub const CONSUMERS: &[&str] = &["not", "if", "elseif", "while"];
const TRUTHY: &[&str] = &["1", "true", "yes", "TRUE", "x", "00", "0.0", " ", "nope", "off", "falsey", "-1", "é", "0 ", "f alse",
    "n", "f", "fa", "fals", "N", "north", "NONE", "falsehood", "0x0", "-0", "+0", "\t", "nо", "\u{feff}", "null", "nil", "undefined"];
const FALSY: &[&str] = &["0", "false", "no", "", "FALSE", "False", "NO", "No", "nO", "fAlSe"];

pub struct Rig {
    base: Context,
    log: Log,
}
impl Rig {
    pub fn new() -> Rig {
        let log: Log = Rc::new(RefCell::new(vec![]));
        let mut base = sdk_context();
        base.commands.set(Box::new(Emit { name: "emit".into(), log: log.clone(), with_vars: false })).unwrap();
        Rig { base, log }
    }
    pub fn usable(&self, atom: &str) -> bool {
        !self.base.commands.exists(atom) && !["and", "or", "(", ")"].contains(&atom)
    }
    /// "T" / "F" as decided by the consumer, "E" when it reported an error, "?" otherwise
    pub fn decide(&self, consumer: &str, stmt: &str) -> String {
        let script = match consumer {
            "not" => format!("x = not {}\n", stmt),
            "if" => format!("if {}\nemit then\nelse\nemit else\nend\n", stmt),
            "elseif" => format!("if false\nemit first\nelseif {}\nemit then\nelse\nemit else\nend\n", stmt),
            "while" => format!("while {}\nemit then\ngoto :out\nend\nemit else\n:out emit out\n", stmt),
            _ => unreachable!(),
        };
        self.log.borrow_mut().clear();
        let (res, halted) = run_timed(&script, self.base.clone(), 20000);
        if halted {
            return "HANG".into();
        }
        match res {
            Err(_) => "PANIC".into(),
            Ok(Err(_)) => "E".into(),
            Ok(Ok(c)) => {
                if consumer == "not" {
                    match c.variables.get("x").map(|s| s.as_str()) {
                        Some("true") => "F".into(),
                        Some("false") => {
                            // "false" is also what an error result leaves: tell apart by evaluating the negation
                            "T".into()
                        }
                        _ => "?".into(),
                    }
                } else {
                    let evs: Vec<String> = self.log.borrow().iter().map(|e| e["args"][0].as_str().unwrap_or("").to_string()).collect();
                    let then = evs.iter().filter(|e| *e == "then").count();
                    let els = evs.iter().filter(|e| *e == "else").count();
                    match (then, els) {
                        (1, 0) => "T".into(),
                        (0, 1) => "F".into(),
                        _ => "E".into(),
                    }
                }
            }
        }
    }
}

fn render(tokens: &[(String, String)]) -> String {
    tokens.iter().map(|(k, v)| if k == "atom" { quote_arg(v) } else { k.clone() }).collect::<Vec<_>>().join(" ")
}

pub fn replay(args: &[String]) {
    let seed: u64 = args[1].parse().unwrap();
    let mut r = Rng::new(seed);
    let rig = Rig::new();
    let mut s = Summary::new();
    let (mut stmts, mut runs) = (0u64, 0u64);
    let mut samples = vec![];
    let truthy: Vec<&str> = TRUTHY.iter().cloned().filter(|a| rig.usable(a)).collect();
    let falsy: Vec<&str> = FALSY.iter().cloned().filter(|a| rig.usable(a)).collect();
    s.set("unusable_spellings", json!(TRUTHY.iter().chain(FALSY.iter()).filter(|a| !rig.usable(a)).collect::<Vec<_>>()));
    tlc_lines(&args[0], "STMT", |rec| {
        stmts += 1;
        let exp = if rec["exp"].as_bool().unwrap() { "T" } else { "F" };
        for inst in 0..3 {
            let toks: Vec<(String, String)> = rec["ts"].as_array().unwrap().iter().map(|t| {
                let t = t.as_str().unwrap();
                match t {
                    "T" => ("atom".to_string(), if inst == 0 { "true".to_string() } else { r.pick(&truthy).to_string() }),
                    "F" => ("atom".to_string(), if inst == 0 { "false".to_string() } else { r.pick(&falsy).to_string() }),
                    k => (k.to_string(), String::new()),
                }
            }).collect();
            let stmt = render(&toks);
            for c in CONSUMERS {
                runs += 1;
                let got = rig.decide(c, &stmt);
                if got != exp {
                    s.mismatch(json!({"consumer": c, "statement": stmt, "expected": exp, "got": got, "shape": rec["ts"]}));
                }
            }
            if samples.len() < 4 && stmts % 499 == 0 && inst == 1 {
                samples.push(json!({"statement": stmt, "expected": exp}));
            }
        }
    });
    s.set("statements", json!(stmts));
    s.set("runs", json!(runs));
    s.set("samples", json!(samples));
    s.finish();
}

fn gen(r: &mut Rng, rig: &Rig, depth: usize, budget: &mut usize, out: &mut Vec<(String, String)>) {
    let natoms = 1 + r.below(4);
    for i in 0..natoms {
        if i > 0 {
            out.push((if r.chance(1, 2) { "and" } else { "or" }.to_string(), String::new()));
        }
        if depth > 0 && *budget > 4 && r.chance(1, 3) {
            out.push(("(".into(), String::new()));
            if !r.chance(1, 8) {
                *budget -= 2;
                gen(r, rig, depth - 1, budget, out);
            }
            out.push((")".into(), String::new()));
        } else {
            let a = loop {
                let a = match r.below(4) {
                    0 => r.pick(TRUTHY).to_string(),
                    1 => r.pick(FALSY).to_string(),
                    2 => (0..r.below(5)).map(|_| *r.pick(&['0', 'n', 'o', 'N', 'O', 'f', 'F', 'a', 'l', 's', 'e', ' ', '1', 'é', '#', '"'])).collect(),
                    _ => (0..1 + r.below(4)).map(|_| char::from_u32(0x21 + r.below(0x2000) as u32).unwrap_or('x')).collect(),
                };
                // values that survive the documented argument syntax unchanged and are not commands
                if rig.usable(&a) && !a.contains('$') && !a.contains('%') {
                    break a;
                }
            };
            out.push(("atom".into(), a));
            if *budget > 0 {
                *budget -= 1;
            }
        }
    }
}

pub fn record(args: &[String]) {
    let seed: u64 = args[0].parse().unwrap();
    let n: usize = args[1].parse().unwrap();
    let mut out = Out::create(&args[2]);
    let mut r = Rng::new(seed);
    let rig = Rig::new();
    let mut s = Summary::new();
    let mut maxlen = 0;
    for _ in 0..n {
        let mut toks = vec![];
        let mut budget = 10 + r.below(30);
        gen(&mut r, &rig, 5, &mut budget, &mut toks);
        // the first token must not be a registered command (it would be evaluated as a command call)
        maxlen = maxlen.max(toks.len());
        let c = *r.pick(CONSUMERS);
        let obs = rig.decide(c, &render(&toks));
        let ts: Vec<Value> = toks.iter().map(|(k, v)| json!({"k": k, "v": cps(v)})).collect();
        out.rec(&json!({"consumer": c, "ts": ts, "obs": obs}));
    }
    s.set("cases", json!(n));
    s.set("max_tokens", json!(maxlen));
    s.finish();
}
