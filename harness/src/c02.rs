//! C02: variable binding of the real runner against Binding (R-level) and Expansion (I-level).
use crate::common::*;
use duckscript::runner;
use duckscript::types::command::*;
use duckscript::types::instruction::*;
use duckscript::types::runtime::Context;
use serde_json::{json, Value};
use std::cell::RefCell;
use std::collections::HashMap;
use std::rc::Rc;

#[derive(Clone)]
pub struct Cap {
    pub log: Rc<RefCell<Vec<Vec<String>>>>,
}
impl Command for Cap {
    fn name(&self) -> String {
        "cap".into()
    }
    fn clone_and_box(&self) -> Box<dyn Command> {
        Box::new(self.clone())
    }
    fn run(&self, ctx: CommandInvocationContext) -> CommandResult {
        self.log.borrow_mut().push(ctx.arguments.clone());
        CommandResult::Continue(None)
    }
}

/// what a harness command receives when `cap <written...>` is executed by run_instruction
pub fn bind_direct(written: &[String], env: &HashMap<String, String>) -> Result<Vec<String>, String> {
    let log = Rc::new(RefCell::new(vec![]));
    let mut commands = Commands::new();
    commands.set(Box::new(Cap { log: log.clone() })).unwrap();
    let mut variables = env.clone();
    let mut si = ScriptInstruction::new();
    si.command = Some("cap".into());
    si.arguments = Some(written.to_vec());
    let ins = Instruction { meta_info: InstructionMetaInfo::new(), instruction_type: InstructionType::Script(si) };
    let mut state = HashMap::new();
    let mut e = quiet_env();
    let r = std::panic::catch_unwind(std::panic::AssertUnwindSafe(|| runner::run_instruction(&mut commands, &mut variables, &mut state, &vec![], ins, 0, &mut e)));
    if r.is_err() {
        return Err("panic".into());
    }
    let l = log.borrow();
    if l.len() != 1 {
        return Err(format!("command invoked {} times", l.len()));
    }
    Ok(l[0].clone())
}

/// script text of one argument (always quoted, documented escapes) - the renderer validated by C01
pub fn quote_arg(a: &str) -> String {
    let mut o = String::from("\"");
    for c in a.chars() {
        match c {
            '\\' => o.push_str("\\\\"),
            '"' => o.push_str("\\\""),
            '\n' => o.push_str("\\n"),
            '\r' => o.push_str("\\r"),
            '\t' => o.push_str("\\t"),
            c => o.push(c),
        }
    }
    o.push('"');
    o
}

/// script text of one argument that the command must receive as exactly the text `a` (through the parser AND the
/// expansion): "${" is written \${ and "%{" is written \\%{ so that neither is taken as a reference.  A backslash run of
/// directly before '$' or '%' cannot always be written (the expansion takes "\$" as an escaped '$'): make_writable
/// adjusts such a text first.
pub fn lit_arg(a: &str) -> String {
    let cs: Vec<char> = a.chars().collect();
    let mut o = String::from("\"");
    for (i, c) in cs.iter().enumerate() {
        let nx = cs.get(i + 1).copied();
        match *c {
            '$' if nx == Some('{') => o.push_str("\\$"),
            '%' if nx == Some('{') => o.push_str("\\\\%"),
            '\\' => o.push_str("\\\\"),
            '"' => o.push_str("\\\""),
            '\n' => o.push_str("\\n"),
            '\r' => o.push_str("\\r"),
            '\t' => o.push_str("\\t"),
            c => o.push(c),
        }
    }
    o.push('"');
    o
}
/// a nearby text that can be passed literally: the expansion's escape handling depends on what stands directly
/// before a '$' / '%' (a backslash escapes it, a preceding '$' / '%' disables the escape written in front of "${"),
/// so every '$' / '%' that follows a backslash, '$' or '%' gets a separating letter in front of it
pub fn make_writable(a: &str) -> String {
    let mut o = String::new();
    let mut prev = ' ';
    for c in a.chars() {
        if (c == '$' || c == '%') && (prev == '\\' || prev == '$' || prev == '%') { o.push('x'); }
        o.push(c);
        prev = c;
    }
    o
}

/// the same through parse_text + run_script (parser o expansion)
pub fn bind_script(written: &[String], env: &HashMap<String, String>) -> Result<Vec<String>, String> {
    let log = Rc::new(RefCell::new(vec![]));
    let mut ctx = Context::new();
    ctx.commands.set(Box::new(Cap { log: log.clone() })).unwrap();
    ctx.variables = env.clone();
    let mut text = String::from("cap");
    for w in written {
        text.push(' ');
        // "\${" is written raw (the documented escape of a variable reference), everything else escaped
        text.push_str(&quote_arg(w).replace("\\\\${", "\\${"));
    }
    text.push('\n');
    match run_guarded(&text, ctx, Some(quiet_env())) {
        Err(p) => Err(format!("panic {}", p)),
        Ok(Err(e)) => Err(format!("error {}", e)),
        Ok(Ok(_)) => {
            let l = log.borrow();
            if l.len() != 1 {
                return Err(format!("command invoked {} times", l.len()));
            }
            Ok(l[0].clone())
        }
    }
}

fn env_of(v: &Value) -> HashMap<String, String> {
    v.as_array().map(|a| a.iter().map(|kv| (uncps(&kv["k"]), uncps(&kv["v"]))).collect()).unwrap_or_default()
}
fn seqs(v: &Value) -> Vec<String> {
    v.as_array().map(|a| a.iter().map(uncps).collect()).unwrap_or_default()
}

pub fn replay(args: &[String]) {
    let mut s = Summary::new();
    let (mut states, mut cases) = (0u64, 0u64);
    let mut samples = vec![];
    tlc_lines(&args[0], "CASE", |rec| {
        states += 1;
        for c in rec.as_array().unwrap() {
            cases += 1;
            let env = env_of(&c["env"]);
            let written = seqs(&c["written"]);
            let exp = seqs(&c["exp"]);
            let model = seqs(&c["model"]);
            for (path, got) in [("run_instruction", bind_direct(&written, &env)), ("run_script", bind_script(&written, &env))] {
                let ok = got.as_ref().map(|g| g == &exp).unwrap_or(false);
                if !ok {
                    let same_as_model = got.as_ref().map(|g| g == &model).unwrap_or(false);
                    s.mismatch(json!({"path": path, "written": written, "env": env, "expected": exp, "got": got.clone().unwrap_or_else(|e| vec![format!("<<{}>>", e)]),
                                      "spread": c["spread"], "same_as_model": same_as_model, "failed": got.is_err()}));
                }
                if got.as_ref().map(|g| g != &model).unwrap_or(true) {
                    s.add("drift", 1);
                }
            }
            if samples.len() < 4 && cases % 1999 == 0 {
                samples.push(json!({"written": written, "env": env, "received": exp}));
            }
        }
    });
    s.set("states", json!(states));
    s.set("cases", json!(cases));
    s.set("samples", json!(samples));
    s.finish();
}

const VCLASS: &[char] = &[' ', ' ', '"', '\\', '#', '$', '{', '}', '%', '\n', '\t', '=', 'a', 'b', 'é', '😀', '\r'];
fn rand_value(r: &mut Rng) -> String {
    match r.below(10) {
        0 => String::new(),
        1 => "${a}".into(),
        2 => "%{b} \\${a}".into(),
        3 => (0..r.below(5)).map(|_| ' ').collect(),
        _ => (0..r.below(12)).map(|_| if r.chance(2, 3) { *r.pick(VCLASS) } else { char::from_u32(0x20 + r.below(0x3000) as u32).unwrap_or('x') }).collect(),
    }
}
fn rand_name(r: &mut Rng) -> String {
    let pool = ["a", "b", "a.b", "x::y", "näme", "a$b", "1", "{", "a\"b", "#c", "%d", "long_variable_name"];
    r.pick(&pool).to_string()
}
fn rand_lit(r: &mut Rng) -> String {
    (0..1 + r.below(6)).map(|_| if r.chance(2, 3) { *r.pick(&[' ', '"', '#', '{', '}', '=', 'p', 'q', '\n', '\t', 'é', ':']) } else { char::from_u32(0x21 + r.below(0x3000) as u32).unwrap_or('x') })
        .filter(|c| !"$%\\".contains(*c)).collect()
}

pub fn record(args: &[String]) {
    let seed: u64 = args[0].parse().unwrap();
    let n: usize = args[1].parse().unwrap();
    let mut out = Out::create(&args[2]);
    let mut r = Rng::new(seed);
    let mut s = Summary::new();
    for _ in 0..n {
        let mut env: HashMap<String, String> = HashMap::new();
        for _ in 0..r.below(5) {
            let spread_safe = r.chance(1, 2);
            let mut v = rand_value(&mut r);
            if spread_safe { v = v.replace('"', "q").replace('#', "h"); }
            env.insert(rand_name(&mut r), v);
        }
        let nargs = 1 + r.below(6);
        let mut targs = vec![];
        let mut written = vec![];
        for _ in 0..nargs {
            if r.chance(1, 6) {
                let name = rand_name(&mut r);
                written.push(format!("%{{{}}}", name));
                targs.push(json!({"spread": true, "name": cps(&name)}));
            } else {
                let mut parts = vec![];
                let mut w = String::new();
                for _ in 0..r.below(5) {
                    match r.below(4) {
                        0 | 1 => { let n = rand_name(&mut r); w.push_str(&format!("${{{}}}", n)); parts.push(json!({"k": "var", "t": cps(&n)})); }
                        2 => { let n = rand_name(&mut r); w.push_str(&format!("\\${{{}}}", n)); parts.push(json!({"k": "esc", "t": cps(&n)})); }
                        _ => { let t = rand_lit(&mut r); w.push_str(&t); parts.push(json!({"k": "lit", "t": cps(&t)})); }
                    }
                }
                written.push(w);
                targs.push(json!({"spread": false, "parts": parts}));
            }
        }
        let got = bind_direct(&written, &env).unwrap_or_else(|e| vec![format!("<<{}>>", e)]);
        let envj: Vec<Value> = env.iter().map(|(k, v)| json!({"k": cps(k), "v": cps(v)})).collect();
        out.rec(&json!({"args": targs, "env": envj, "written": written.iter().map(|w| cps(w)).collect::<Vec<_>>(), "got": got.iter().map(|g| cps(g)).collect::<Vec<_>>()}));
    }
    s.set("cases", json!(n));
    s.finish();
}

/// harness self-validation: for random texts (made writable) `cap <lit_arg(T)>` must hand exactly T to the command
pub fn lit_selftest(args: &[String]) {
    let seed: u64 = args.get(0).and_then(|x| x.parse().ok()).unwrap_or(1);
    let n: usize = args.get(1).and_then(|x| x.parse().ok()).unwrap_or(20000);
    let mut r = Rng::new(seed);
    let mut s = Summary::new();
    const SOUP: &[char] = &['\\', '\\', '$', '%', '{', '}', '"', '#', ' ', '=', 'a', 'é', '\n', '\t', '\r', '😀', ':', '!'];
    let log = Rc::new(RefCell::new(vec![]));
    let mut base = Context::new();
    base.commands.set(Box::new(Cap { log: log.clone() })).unwrap();
    base.variables.insert("a".into(), "VALUE".into());
    for _ in 0..n {
        let k = 1 + r.below(3);
        let texts: Vec<String> = (0..k).map(|_| { let len = r.below(9); let t: String = (0..len).map(|_| *r.pick(SOUP)).collect(); make_writable(&t) }).collect();
        let script = format!("cap {}\n", texts.iter().map(|t| lit_arg(t)).collect::<Vec<_>>().join(" "));
        log.borrow_mut().clear();
        let res = run_guarded(&script, base.clone(), Some(quiet_env()));
        let got = log.borrow().get(0).cloned();
        // an empty text is received as one empty argument
        if !matches!(res, Ok(Ok(_))) || got.as_ref() != Some(&texts) {
            s.mismatch(json!({"texts": texts, "script": script, "got": got}));
        }
    }
    s.set("cases", json!(n));
    s.finish();
}
