//! C03 / C13: the real runner against the abstract machine Runner.tla.
use crate::common::*;
use duckscript::runner;
use duckscript::types::command::*;
use duckscript::types::env::Env;
use duckscript::types::error::ScriptError;
use duckscript::types::runtime::Context;
use serde_json::{json, Value};
use std::cell::RefCell;
use std::collections::HashMap;
use std::rc::Rc;
use std::sync::atomic::Ordering;

#[derive(Clone, Debug)]
pub struct Res {
    k: String,
    v: Option<String>,
    l: String,
    n: usize,
}
pub struct Shared {
    script: HashMap<usize, (Vec<Res>, bool)>,
    visits: HashMap<usize, usize>,
    pub events: Vec<Value>,
    onerr: String,
    total: usize,
    cap: usize,
    halt_at: usize,
    with_vars: bool,
}
impl Shared {
    fn tick(&mut self, env: &mut Env) {
        self.total += 1;
        if self.halt_at > 0 && self.total == self.halt_at {
            env.halt.store(true, Ordering::SeqCst);
            // the flag is a raise-only signal shared by every holder: a second Env that shares it (what a command running a
            // nested script with the caller's flag creates) comes and goes without the request being lost
            let nested = Env::new(Some(Box::new(std::io::sink())), Some(Box::new(std::io::sink())), Some(env.halt.clone()));
            drop(nested);
        }
    }
}
#[derive(Clone)]
struct ResCmd {
    sh: Rc<RefCell<Shared>>,
}
impl Command for ResCmd {
    fn name(&self) -> String {
        "res".into()
    }
    fn clone_and_box(&self) -> Box<dyn Command> {
        Box::new(self.clone())
    }
    fn run(&self, ctx: CommandInvocationContext) -> CommandResult {
        let mut sh = self.sh.borrow_mut();
        let over = sh.total + 1 > sh.cap;
        sh.tick(ctx.env);
        let mut e = json!({"ev":"call","line":ctx.line,"args":ctx.arguments});
        if sh.with_vars {
            e["vars"] = vars_json(ctx.variables);
        }
        sh.events.push(e);
        if over {
            return CommandResult::Exit(None);
        }
        let (rs, rep) = sh.script.get(&ctx.line).cloned().unwrap_or((vec![], false));
        let r = if rep {
            rs.get(0).cloned()
        } else {
            let visit = { let e = sh.visits.entry(ctx.line).or_insert(0); *e += 1; *e };
            rs.get(visit - 1).cloned()
        };
        match r {
            None => CommandResult::Continue(None),
            Some(r) => match r.k.as_str() {
                "cont" => CommandResult::Continue(r.v),
                "gotoL" => CommandResult::GoTo(r.v, GoToValue::Label(r.l)),
                "gotoN" => CommandResult::GoTo(r.v, GoToValue::Line(r.n)),
                "exit" => CommandResult::Exit(r.v),
                "err" => CommandResult::Error(r.v.unwrap_or_default()),
                _ => CommandResult::Crash(r.v.unwrap_or_default()),
            },
        }
    }
}
#[derive(Clone)]
struct OnErr {
    sh: Rc<RefCell<Shared>>,
}
impl Command for OnErr {
    fn name(&self) -> String {
        "on_error".into()
    }
    fn clone_and_box(&self) -> Box<dyn Command> {
        Box::new(self.clone())
    }
    fn run(&self, ctx: CommandInvocationContext) -> CommandResult {
        let mut sh = self.sh.borrow_mut();
        sh.tick(ctx.env);
        sh.events.push(json!({"ev":"onerr","args":ctx.arguments}));
        match sh.onerr.as_str() {
            "cont" => CommandResult::Continue(Some("zz".into())),
            "exit" => CommandResult::Exit(None),
            _ => CommandResult::Crash("oe-crash".into()),
        }
    }
}

fn res_of(v: &Value) -> Res {
    Res { k: v["k"].as_str().unwrap().into(), v: if v["hasv"].as_bool().unwrap() { Some(v["v"].as_str().unwrap().into()) } else { None }, l: v["l"].as_str().unwrap().into(), n: v["n"].as_u64().unwrap() as usize }
}

pub fn render(prog: &Value) -> String {
    let mut text = String::new();
    for ln in prog.as_array().unwrap() {
        let (label, out, cmd) = (ln["label"].as_str().unwrap(), ln["out"].as_str().unwrap(), ln["cmd"].as_str().unwrap());
        let mut line = String::new();
        if !label.is_empty() {
            line.push_str(label);
            line.push(' ');
        }
        if !out.is_empty() {
            line.push_str(out);
            line.push_str(" = ");
        }
        if !cmd.is_empty() {
            line.push_str(cmd);
            line.push_str(" ${x} ${y}");
        }
        text.push_str(&line);
        text.push('\n');
    }
    text
}

pub struct Outcome {
    pub events: Vec<Value>,
    pub ok: bool,
    pub errline: usize,
    pub msg: String,
    pub vars: Value,
    pub source: Option<String>,
    pub panicked: bool,
}

/// run one program on the real runner
pub fn execute(prog: &Value, onerr: &str, src: &str, halt_at: usize, cap: usize, with_vars: bool, file: &str) -> Outcome {
    let mut script = HashMap::new();
    for (i, ln) in prog.as_array().unwrap().iter().enumerate() {
        if ln["cmd"] == "res" {
            script.insert(i, (ln["res"].as_array().map(|a| a.iter().map(res_of).collect()).unwrap_or_default(), ln["rep"].as_bool().unwrap_or(false)));
        }
    }
    let sh = Rc::new(RefCell::new(Shared { script, visits: HashMap::new(), events: vec![], onerr: onerr.into(), total: 0, cap, halt_at, with_vars }));
    let mut ctx = Context::new();
    ctx.commands.set(Box::new(ResCmd { sh: sh.clone() })).unwrap();
    if onerr != "absent" {
        ctx.commands.set(Box::new(OnErr { sh: sh.clone() })).unwrap();
    }
    let text = render(prog);
    let r = std::panic::catch_unwind(std::panic::AssertUnwindSafe(|| {
        if src.is_empty() {
            runner::run_script(&text, ctx, Some(quiet_env()))
        } else {
            std::fs::write(file, &text).unwrap();
            runner::run_script_file(file, ctx, Some(quiet_env()))
        }
    }));
    let events = sh.borrow().events.clone();
    match r {
        Err(_) => Outcome { events, ok: false, errline: 0, msg: "PANIC".into(), vars: json!({}), source: None, panicked: true },
        Ok(Ok(c)) => Outcome { events, ok: true, errline: 0, msg: String::new(), vars: vars_json(&c.variables), source: None, panicked: false },
        Ok(Err(ScriptError::Runtime(m, meta))) => Outcome { events, ok: false, errline: meta.as_ref().and_then(|x| x.line).unwrap_or(0), msg: m, vars: json!({}), source: meta.and_then(|x| x.source), panicked: false },
        Ok(Err(e)) => Outcome { events, ok: false, errline: 0, msg: format!("{:?}", e), vars: json!({}), source: None, panicked: false },
    }
}

pub fn replay(args: &[String]) {
    let file = format!("{}/c03_prog.ds", args[1]);
    let mut s = Summary::new();
    let (mut runs, mut halting) = (0u64, 0u64);
    let mut samples = vec![];
    tlc_lines(&args[0], "RUN", |rec| {
        runs += 1;
        let src = rec["src"].as_str().unwrap();
        let halt_at = rec["haltAt"].as_u64().unwrap() as usize;
        if halt_at > 0 { halting += 1; }
        let o = execute(&rec["prog"], rec["onerr"].as_str().unwrap(), src, halt_at, 30, false, &file);
        let mut why = vec![];
        // invocation sequence with the arguments each one saw
        let exp_calls: Vec<Value> = rec["calls"].as_array().unwrap().iter().map(|c| {
            if c["line"].as_i64().unwrap() < 0 {
                let mut a = strs(&c["args"]);
                if a[2] == "F" { a[2] = file.clone(); }
                json!({"ev":"onerr","args":a})
            } else { json!({"ev":"call","line":c["line"],"args":c["args"]}) }
        }).collect();
        if o.events != exp_calls { why.push(format!("invocations {:?} expected {:?}", o.events, exp_calls)); }
        let exp_ok = rec["ok"].as_bool().unwrap();
        if o.panicked { why.push("panic".into()); }
        if o.ok != exp_ok { why.push(format!("run ok={} expected {} ({})", o.ok, exp_ok, o.msg)); }
        if !exp_ok && !o.ok {
            if o.errline as u64 != rec["errline"].as_u64().unwrap() { why.push(format!("error names line {} expected {}", o.errline, rec["errline"])); }
            let m = rec["msg"].as_str().unwrap();
            if (m == "bang" || m == "oe-crash") && o.msg != m { why.push(format!("error message {:?} expected {:?}", o.msg, m)); }
            if !src.is_empty() && o.source.as_deref() != Some(file.as_str()) { why.push(format!("error source {:?}", o.source)); }
        }
        if exp_ok && o.ok {
            let mut exp = serde_json::Map::new();
            if let Some(m) = rec["vars"]["vals"].as_object() { for (k, v) in m { exp.insert(k.clone(), v.clone()); } }
            if o.vars != Value::Object(exp.clone()) { why.push(format!("final variables {} expected {}", o.vars, Value::Object(exp))); }
        }
        if !why.is_empty() {
            s.mismatch(json!({"prog": rec["prog"], "text": render(&rec["prog"]), "onerr": rec["onerr"], "src": src, "haltAt": halt_at, "why": why, "halted": rec["halted"]}));
        }
        if samples.len() < 3 && runs % 40009 == 0 { samples.push(json!({"script": render(&rec["prog"]), "on_error": rec["onerr"], "halt_at_invocation": halt_at, "calls": rec["calls"], "ok": rec["ok"]})); }
    });
    s.set("runs", json!(runs));
    s.set("halting_runs", json!(halting));
    s.set("samples", json!(samples));
    s.finish();
}

pub fn record(args: &[String]) {
    let seed: u64 = args[0].parse().unwrap();
    let nprog: usize = args[1].parse().unwrap();
    let maxlines: usize = args[2].parse().unwrap();
    let mut out = Out::create(&args[3]);
    let file = format!("{}/c03_rec.ds", args[4]);
    let mut r = Rng::new(seed);
    let mut s = Summary::new();
    let mut nrec = 0u64;
    for _ in 0..nprog {
        let nl = 1 + r.below(maxlines);
        let onerr = *r.pick(&["absent", "cont", "cont", "exit", "crash"]);
        let src = if r.chance(1, 3) { "F" } else { "" };
        let halt_at = if r.chance(1, 4) { 1 + r.below(12) } else { 0 };
        let mut prog = vec![];
        for _ in 0..nl {
            let label = *r.pick(&["", "", "", ":a", ":b", ":c", ":d"]);
            let o = *r.pick(&["", "", "x", "y", "z"]);
            let cmd = match r.below(14) { 0 => "", 1 if nl < 6 => "nosuch", _ => "res" };
            let mut rs = vec![];
            if cmd == "res" {
                for _ in 0..r.below(4) {
                    let v = match r.below(5) { 0 => None, 1 => Some("0"), 2 => Some("3"), 3 => Some("-2"), _ => Some("val") };
                    let (hasv, vs) = (v.is_some(), v.unwrap_or(""));
                    let x = match r.below(16) {
                        0..=6 => json!({"k":"cont","hasv":hasv,"v":vs,"l":"","n":0}),
                        7..=9 => json!({"k":"gotoL","hasv":hasv,"v":vs,"l":*r.pick(&[":a", ":b", ":c", ":d", ":e"]),"n":0}),
                        10 | 11 => json!({"k":"gotoN","hasv":hasv,"v":vs,"l":"","n":r.below(nl + 3)}),
                        12 => json!({"k":"exit","hasv":hasv,"v":vs,"l":"","n":0}),
                        13 | 14 => json!({"k":"err","hasv":true,"v":"boom","l":"","n":0}),
                        _ => json!({"k":"crash","hasv":true,"v":"bang","l":"","n":0}),
                    };
                    rs.push(x);
                }
            }
            prog.push(json!({"label":label,"out":o,"cmd":cmd,"res":rs,"rep":false}));
        }
        let progv = json!(prog);
        let o = execute(&progv, onerr, src, halt_at, 200, true, &file);
        if o.panicked { s.mismatch(json!({"why": "panic", "text": render(&progv)})); }
        out.rec(&json!({"ev":"prog","prog":progv,"onerr":onerr,"src":if src.is_empty() { "".to_string() } else { file.clone() },"haltAt":halt_at}));
        nrec += 1;
        for e in &o.events { out.rec(e); nrec += 1; }
        out.rec(&json!({"ev":"end","ok":o.ok,"errline":o.errline,"msg":o.msg,"vars":o.vars}));
        nrec += 1;
    }
    s.set("programs", json!(nprog));
    s.set("records", json!(nrec));
    s.finish();
}
