//! C19: script-implemented library commands leave no trace in the caller's variables.
use crate::c02::quote_arg;
use crate::common::*;
use duckscript::types::runtime::{Context, StateValue};
use serde_json::{json, Value};
use std::cell::RefCell;
use std::collections::BTreeMap;
use std::path::PathBuf;
use std::rc::Rc;

fn handles(c: &Context) -> usize {
    match c.state.get("handles") {
        Some(StateValue::SubState(m)) => m.len(),
        _ => 0,
    }
}
fn arg_of(kind: &str) -> String {
    match kind {
        "L" => "${arr}".into(),
        "M" => "${mp}".into(),
        "S" => "${st}".into(),
        "R" => "${rel}".into(),
        "B" => "handle:bogus000000000000000".into(),
        "V" => "keepme".into(),
        "W" => quote_arg("a b #c\"d 'e"),
        "E" => "\"\"".into(),
        "N" => "5".into(),
        "P" => "f.txt".into(),
        _ => "nofile.txt".into(),
    }
}
pub fn script_for(cmd: &str, shape: &[String], ctx: &str) -> String {
    let call = format!("out = {} {}\nemit \"${{out}}\"\n", cmd, shape.iter().map(|k| arg_of(k)).collect::<Vec<_>>().join(" "));
    match ctx {
        "top" => call,
        "function" => format!("fn ff\n{}end\nff\n", call),
        "loop" => format!("for i in ${{two}}\n{}end\n", call),
        "nested" => format!("fn ff\nfor i in ${{two}}\nif true\n{}end\nend\nend\nff\n", call),
        _ => format!("for i in ${{fifty}}\n{}end\n", call),
    }
}

pub fn replay(args: &[String]) {
    let dir = PathBuf::from(&args[1]).join("c19_dir");
    let reset_dir = |dir: &PathBuf| {
        let _ = std::process::Command::new("chmod").arg("-R").arg("u+rwx").arg(dir).output();
        let _ = std::fs::remove_dir_all(dir);
        std::fs::create_dir_all(dir.join("d")).unwrap();
        std::fs::write(dir.join("f.txt"), "F").unwrap();
        std::fs::write(dir.join("d/g.txt"), "G").unwrap();
        std::env::set_current_dir(dir).unwrap();
    };
    reset_dir(&dir);
    std::env::set_current_dir(&args[1]).unwrap();
    let home = std::env::current_dir().unwrap();
    reset_dir(&dir);
    let log: Log = Rc::new(RefCell::new(vec![]));
    let mut base = sdk_context();
    base.commands.set(Box::new(Emit { name: "emit".into(), log: log.clone(), with_vars: false })).unwrap();
    let setup = "arr = array a \"b c\" \"\"\nmp = map\nmap_put ${mp} k \"v w\"\nst = set_new x y\nrel = array z\nrelease ${rel}\ntwo = range 0 2\nfifty = range 0 50\nkeepme = set 1\nother = set \"o v\"\nscope::array_concat_keep = set kept\nscope::array_contains_keep = set kept\nscope::array_is_empty_keep = set kept\nscope::array_join_keep = set kept\nscope::map_contains_key_keep = set kept\nscope::map_contains_value_keep = set kept\nscope::map_is_empty_keep = set kept\nscope::set_from_array_keep = set kept\nscope::set_is_empty_keep = set kept\nscope::is_windows_keep = set kept\nscope::uname_keep = set kept\nscope::printenv_keep = set kept\nscope::glob_cp_keep = set kept\nscope::join_path_keep = set kept\nscope::glob_chmod_keep = set kept\nscope::sha256sum_keep = set kept\nscope::sha512sum_keep = set kept\nscope::base64_keep = set kept\nscope::concat_keep = set kept\nscope::unset_keep = set kept\n";
    let ctx0 = run_guarded(setup, base, Some(quiet_env())).unwrap().unwrap();
    let mut s = Summary::new();
    let (mut cases, mut invocations) = (0u64, 0u64);
    let mut samples = vec![];
    tlc_lines(&args[0], "CASES", |rec| {
        for c in rec.as_array().unwrap() {
            cases += 1;
            let cmd = c["cmd"].as_str().unwrap();
            let shape = strs(&c["shape"]);
            let cx = c["ctx"].as_str().unwrap();
            if cmd == "join_path" && shape.iter().any(|k| k == "W") {
                // join_path's own while loop never ends for such values (recorded under C07/C09); the nested loop cannot be interrupted in-process
                s.add("skipped_known_hang", 1);
                continue;
            }
            if ["glob_cp", "glob_chmod"].contains(&cmd) { reset_dir(&dir); }
            let script = script_for(cmd, &shape, cx);
            let before: BTreeMap<String, String> = ctx0.variables.clone().into_iter().collect();
            let hb = handles(&ctx0);
            log.borrow_mut().clear();
            if std::env::var("VH_TRACE").is_ok() { eprintln!("TRY {} {:?} {}", cmd, shape, cx); }
            let t0 = std::time::Instant::now();
            let (res, halted) = run_timed(&script, ctx0.clone(), 30000);
            if t0.elapsed().as_millis() > 30 { eprintln!("SLOW {}ms {} {:?} {}", t0.elapsed().as_millis(), cmd, shape, cx); }
            let _ = std::env::set_current_dir(&dir);
            if halted {
                s.mismatch(json!({"cmd": cmd, "shape": shape, "ctx": cx, "why": "hang (halted by the watchdog)"}));
                continue;
            }
            match res {
                Err(p) => s.mismatch(json!({"cmd": cmd, "shape": shape, "ctx": cx, "why": format!("panic {}", p)})),
                Ok(Err(e)) => s.mismatch(json!({"cmd": cmd, "shape": shape, "ctx": cx, "why": format!("run failed: {}", e)})),
                Ok(Ok(c3)) => {
                    let outs: Vec<String> = log.borrow().iter().map(|e| e["args"][0].as_str().unwrap_or("").to_string()).collect();
                    invocations += outs.len() as u64;
                    let mut after: BTreeMap<String, String> = c3.variables.clone().into_iter().collect();
                    after.remove("out");
                    after.remove("i");
                    if cx == "function" || cx == "nested" { /* ff takes no arguments: nothing else is defined */ }
                    let mut exp = before.clone();
                    if cmd == "unset" {
                        for k in &shape { if k == "V" { exp.remove("keepme"); } }
                    }
                    let new_handles = if cmd == "array_concat" || cmd == "set_from_array" { outs.iter().filter(|o| o.starts_with("handle:")).count() } else { 0 };
                    let ha = handles(&c3);
                    let mut why = vec![];
                    if after != exp {
                        let extra: Vec<_> = after.keys().filter(|k| !exp.contains_key(*k)).cloned().collect();
                        let missing: Vec<_> = exp.keys().filter(|k| !after.contains_key(*k)).cloned().collect();
                        let changed: Vec<_> = exp.iter().filter(|(k, v)| after.get(*k).map(|x| x != *v).unwrap_or(false)).map(|(k, _)| k.clone()).collect();
                        why.push(format!("variables: extra {:?} missing {:?} changed {:?}", extra, missing, changed));
                    }
                    if ha != hb + new_handles { why.push(format!("handle table {} -> {} with {} documented new handle(s)", hb, ha, new_handles)); }
                    let expected_calls = match cx { "loop" | "nested" => 2, "repeat" => 50, _ => 1 };
                    if outs.len() != expected_calls { why.push(format!("{} of {} invocations completed", outs.len(), expected_calls)); }
                    if !why.is_empty() {
                        s.mismatch(json!({"cmd": cmd, "shape": shape, "ctx": cx, "script": script, "why": why.join("; "), "outputs": outs.iter().take(3).collect::<Vec<_>>()}));
                    }
                    if samples.len() < 3 && cases % 1499 == 0 { samples.push(json!({"script": script, "outputs": outs.iter().take(2).collect::<Vec<_>>(), "handles_before": hb, "handles_after": ha})); }
                }
            }
        }
    });
    reset_dir(&dir);
    let _ = std::env::set_current_dir(&home);
    let _ = std::fs::remove_dir_all(&dir);
    s.set("cases", json!(cases));
    s.set("invocations", json!(invocations));
    s.set("samples", json!(samples));
    s.finish();
}

const CMDS: &[&str] = &["array_concat", "array_contains", "array_is_empty", "array_join", "map_contains_key", "map_contains_value", "map_is_empty", "set_from_array",
    "set_is_empty", "is_windows", "uname", "glob_cp", "join_path", "glob_chmod", "sha256sum", "sha512sum", "base64", "concat", "unset"];
const KINDS: &[&str] = &["L", "M", "S", "R", "B", "V", "E", "N", "P", "Q", "X"];
pub fn record(args: &[String]) {
    let seed: u64 = args[0].parse().unwrap();
    let nsess: usize = args[1].parse().unwrap();
    let len: usize = args[2].parse().unwrap();
    let mut out = Out::create(&args[3]);
    let dir = PathBuf::from(&args[4]).join("c19_rec");
    let home = std::env::current_dir().unwrap();
    let mut r = Rng::new(seed);
    let base = sdk_context();
    let mut s = Summary::new();
    let mut events = 0u64;
    let kv = |m: &std::collections::HashMap<String, String>| -> Vec<Value> { let b: BTreeMap<_, _> = m.iter().collect(); b.iter().map(|(k, v)| json!([cps(k), cps(v)])).collect() };
    for _ in 0..nsess {
        let _ = std::process::Command::new("chmod").arg("-R").arg("u+rwx").arg(&dir).output();
        let _ = std::fs::remove_dir_all(&dir);
        std::fs::create_dir_all(dir.join("d")).unwrap();
        std::fs::write(dir.join("f.txt"), "F").unwrap();
        std::env::set_current_dir(&dir).unwrap();
        let setup = "arr = array a \"b c\" \"\"\nmp = map\nmap_put ${mp} k \"v w\"\nst = set_new x y\nrel = array z\nrelease ${rel}\nkeepme = set 1\nother = set \"o v\"\nscope::array_concat_keep = set kept\nscope::array_contains_keep = set kept\nscope::array_is_empty_keep = set kept\nscope::array_join_keep = set kept\nscope::map_contains_key_keep = set kept\nscope::map_contains_value_keep = set kept\nscope::map_is_empty_keep = set kept\nscope::set_from_array_keep = set kept\nscope::set_is_empty_keep = set kept\nscope::is_windows_keep = set kept\nscope::uname_keep = set kept\nscope::printenv_keep = set kept\nscope::glob_cp_keep = set kept\nscope::join_path_keep = set kept\nscope::glob_chmod_keep = set kept\nscope::sha256sum_keep = set kept\nscope::sha512sum_keep = set kept\nscope::base64_keep = set kept\nscope::concat_keep = set kept\nscope::unset_keep = set kept\n";
        let mut ctx = run_guarded(setup, base.clone(), Some(quiet_env())).unwrap().unwrap();
        for _ in 0..(1 + r.below(len)) {
            if r.chance(1, 4) {
                // ordinary commands in between: the session state keeps changing
                let line = *r.pick(&["x1 = set v1\n", "array_push ${arr} more\n", "tmp = array t\n", "x1 = set\n", "map_put ${mp} z z\n", "keepme = set 1\n"]);
                if let Ok(Ok(c)) = run_guarded(line, ctx.clone(), Some(quiet_env())) { ctx = c; }
                continue;
            }
            let cmd = *r.pick(CMDS);
            let shape: Vec<String> = (0..r.below(4)).map(|_| r.pick(KINDS).to_string()).collect();
            let args_txt: Vec<String> = shape.iter().map(|k| if k == "X" { "x1".to_string() } else { arg_of(k) }).collect();
            let names: Vec<String> = shape.iter().map(|k| match k.as_str() { "V" => "keepme".to_string(), "X" => "x1".to_string(), _ => format!("<{}>", k) }).collect();
            let outvar = if r.chance(1, 5) { "other" } else { "out" };
            let script = format!("{} = {} {}\n", outvar, cmd, args_txt.join(" "));
            let before = kv(&ctx.variables);
            let hb = handles(&ctx);
            let (res, halted) = run_timed(&script, ctx.clone(), 30000);
            let _ = std::env::set_current_dir(&dir);
            let (err, c2) = if halted { ("hang".to_string(), ctx.clone()) } else { match res { Err(p) => (format!("panic {}", p), ctx.clone()), Ok(Err(e)) => (format!("run failed {}", e), ctx.clone()), Ok(Ok(c)) => (String::new(), c) } };
            let o = c2.variables.get(outvar).cloned();
            out.rec(&json!({"cmd": cmd, "shape": shape, "args": names.iter().map(|n| cps(n)).collect::<Vec<_>>(), "outvar": cps(outvar), "err": err,
                "before": before, "after": kv(&c2.variables), "handles_before": hb, "handles_after": handles(&c2),
                "returns_handle": cmd == "array_concat" || cmd == "set_from_array", "out_is_handle": o.as_deref().map(|x| x.starts_with("handle:")).unwrap_or(false)}));
            events += 1;
            ctx = c2;
        }
    }
    let _ = std::env::set_current_dir(&home);
    let _ = std::process::Command::new("chmod").arg("-R").arg("u+rwx").arg(&dir).output();
    let _ = std::fs::remove_dir_all(&dir);
    s.set("sessions", json!(nsess));
    s.set("events", json!(events));
    s.finish();
}
