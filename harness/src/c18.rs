//! C18: file commands against FileTree.tla (cases with externally constructed trees; random histories).
use crate::c02::lit_arg as quote_arg;
use crate::common::*;
use duckscript::types::runtime::Context;
use serde_json::{json, Value};
use std::collections::BTreeMap;
use std::path::{Path, PathBuf};

fn walk(root: &Path, rel: &str, out: &mut BTreeMap<String, String>) {
    if let Ok(rd) = std::fs::read_dir(root.join(rel)) {
        for e in rd.flatten() {
            let name = e.file_name().to_string_lossy().into_owned();
            let r = if rel.is_empty() { name.clone() } else { format!("{}/{}", rel, name) };
            if e.path().is_dir() {
                out.insert(r.clone(), "dir".into());
                walk(root, &r, out);
            } else {
                out.insert(r, format!("file:{}", String::from_utf8_lossy(&std::fs::read(e.path()).unwrap_or_default())));
            }
        }
    }
}
fn tree_map(v: &Value) -> BTreeMap<String, String> {
    let mut m = BTreeMap::new();
    for (p, node) in v.as_object().unwrap() {
        match node["k"].as_str().unwrap() {
            "dir" => { m.insert(p.clone(), "dir".to_string()); }
            "file" => { m.insert(p.clone(), format!("file:{}", node["c"].as_str().unwrap())); }
            _ => {}
        }
    }
    m
}
fn materialise(root: &Path, tree: &BTreeMap<String, String>) {
    let _ = std::fs::remove_dir_all(root);
    std::fs::create_dir_all(root).unwrap();
    let mut paths: Vec<&String> = tree.keys().collect();
    paths.sort_by_key(|p| p.len());
    for p in paths {
        let v = &tree[p];
        if v == "dir" { std::fs::create_dir_all(root.join(p)).unwrap(); } else { std::fs::write(root.join(p), &v[5..]).unwrap(); }
    }
}
fn script_of(cmd: &str, args: &[String]) -> String {
    let q: Vec<String> = args.iter().map(|a| if a == "-r" { a.clone() } else { quote_arg(a) }).collect();
    match cmd {
        "ls" => format!("h = glob_array \"{}/*\"\n", args[0]),
        "write_binary" => format!("h = string_to_bytes {}\no = write_binary_file {} ${{h}}\n", q[1], q[0]),
        "read_binary" => format!("h = read_binary_file {}\no = set ${{h}}\nif starts_with \"${{h}}\" handle:\no = bytes_to_string ${{h}}\nend\n", q[0]),
        "rm2" => format!("o = rm {}\n", q.join(" ")),
        "cp_detour" | "mv_detour" => format!("o = {} \"d/../{}\" {}\n", &cmd[..2], args[0], q[0]),
        _ => format!("o = {} {}\n", cmd, q.join(" ")),
    }
}
/// run one operation in `root`; returns (output, listing for ls)
pub fn run_op(base: &Context, root: &Path, cmd: &str, args: &[String]) -> Result<(Option<String>, Vec<String>), String> {
    std::env::set_current_dir(root).map_err(|e| e.to_string())?;
    let (res, halted) = run_timed(&script_of(cmd, args), base.clone(), 20000);
    if halted {
        return Err("hang".into());
    }
    match res {
        Err(p) => Err(format!("panic {}", p)),
        Ok(Err(e)) => Err(format!("run error {}", e)),
        Ok(Ok(c)) => {
            let mut listing = vec![];
            if cmd == "ls" {
                if let Some(h) = c.variables.get("h") {
                    listing = crate::c11::read_array(&c, h)?;
                }
            }
            Ok((c.variables.get("o").cloned(), listing))
        }
    }
}
fn out_ok(eo: &str, out: &Option<String>) -> bool {
    match eo {
        "?" | "L:" => true,
        "none" => out.is_none(),
        "none-or-false" => out.is_none() || out.as_deref() == Some("false"),
        x if x.starts_with('=') => out.as_deref() == Some(&x[1..]) || (x == "=" && out.is_none()),
        x => out.as_deref() == Some(x),
    }
}
fn children(tree: &BTreeMap<String, String>, p: &str) -> Vec<String> {
    let pre = format!("{}/", p);
    let mut v: Vec<String> = tree.keys().filter(|k| k.starts_with(&pre) && !k[pre.len()..].contains('/')).map(|k| k[pre.len()..].to_string()).collect();
    v.sort();
    v
}

pub fn replay(args: &[String]) {
    let base = sdk_context();
    let root = PathBuf::from(&args[1]).join("c18_replay");
    let mut s = Summary::new();
    let mut n = 0u64;
    let mut samples = vec![];
    let home = std::env::current_dir().unwrap();
    for rec in ndjson(&args[0]) {
        n += 1;
        let tree = tree_map(&rec["tree"]);
        materialise(&root, &tree);
        let cmd = rec["op"]["cmd"].as_str().unwrap();
        let a = strs(&rec["op"]["a"]);
        let exp = tree_map(&rec["exp"]["t"]);
        let eo = rec["exp"]["out"].as_str().unwrap();
        let same = a.len() > 1 && a[0] == a[1];
        match run_op(&base, &root, cmd, &a) {
            Err(e) => s.mismatch(json!({"cmd": cmd, "args": a, "tree": tree, "why": e, "same_path": same})),
            Ok((out, listing)) => {
                let mut got = BTreeMap::new();
                walk(&root, "", &mut got);
                let mut why = vec![];
                if got != exp { why.push(format!("tree {:?} expected {:?}", got, exp)); }
                if !out_ok(eo, &out) { why.push(format!("output {:?} expected {}", out, eo)); }
                if cmd == "ls" {
                    let mut names: Vec<String> = listing.iter().map(|p| Path::new(p).file_name().map(|x| x.to_string_lossy().into_owned()).unwrap_or_default()).collect();
                    names.sort();
                    let expn = if tree.get(&a[0]).map(|v| v == "dir").unwrap_or(false) { children(&tree, &a[0]) } else { vec![] };
                    if names != expn { why.push(format!("listing {:?} expected {:?}", names, expn)); }
                }
                if !why.is_empty() {
                    s.mismatch(json!({"cmd": cmd, "args": a, "tree": tree, "why": why.join("; "), "same_path": same}));
                }
                if samples.len() < 3 && n % 4999 == 0 { samples.push(json!({"tree": tree, "cmd": cmd, "args": a, "output": out, "tree_after": got})); }
            }
        }
    }
    let _ = std::env::set_current_dir(&home);
    let _ = std::fs::remove_dir_all(&root);
    s.set("cases", json!(n));
    s.set("samples", json!(samples));
    s.finish();
}

const POOL1: &[&str] = &["a.txt", "d", "d/b.txt", "d/s p", "d/s p/c é.txt", "n.txt"];
const POOL2: &[&str] = &["a.txt", "n.txt", "v1.2", "v1.2/a.txt", "d", "d/a.txt", "d/n.txt"];
pub fn record(args: &[String]) {
    let seed: u64 = args[0].parse().unwrap();
    let nhist: usize = args[1].parse().unwrap();
    let len: usize = args[2].parse().unwrap();
    let mut out = Out::create(&args[3]);
    let root = PathBuf::from(&args[4]).join("c18_record");
    let pool2 = args.get(5).map(|x| x == "2").unwrap_or(false);
    #[allow(non_snake_case)]
    let POOL: &[&str] = if pool2 { POOL2 } else { POOL1 };
    let sources: &[&str] = if pool2 { &["a.txt", "n.txt"] } else { &["a.txt", "d/b.txt"] };
    let base = sdk_context();
    let mut r = Rng::new(seed);
    let mut s = Summary::new();
    let home = std::env::current_dir().unwrap();
    let mut events = 0u64;
    let node = |tree: &BTreeMap<String, String>| -> Value {
        let mut m = serde_json::Map::new();
        for p in POOL {
            m.insert(p.to_string(), match tree.get(*p) { None => json!({"k": "absent", "c": ""}), Some(v) if v == "dir" => json!({"k": "dir", "c": ""}), Some(v) => json!({"k": "file", "c": &v[5..]}) });
        }
        Value::Object(m)
    };
    for h in 0..nhist {
        materialise(&root, &BTreeMap::new());
        out.rec(&json!({"ev": "reset"}));
        events += 1;
        for _ in 0..(1 + r.below(len)) {
            let p = r.pick(POOL).to_string();
            let (cmd, a): (&str, Vec<String>) = match r.below(20) {
                0..=2 => ("writefile", vec![p, if r.chance(1, 5) { String::new() } else { "x".into() }]),
                3 | 4 => ("appendfile", vec![p, if r.chance(1, 4) { String::new() } else { "x".into() }]),
                5 => ("write_binary", vec![p, "x".into()]),
                6 => ("touch", vec![p]),
                7 | 8 => ("mkdir", vec![p]),
                9 if r.chance(1, 3) => ("rm2", vec![r.pick(&["a.txt", "n.txt"]).to_string(), p]),
                9 => ("rm", vec![p]),
                10 => ("rm", vec!["-r".into(), p]),
                11 => ("rmdir", vec![p]),
                12 => ("readfile", vec![p]),
                13 => (*r.pick(&["is_path_exists", "is_file", "is_dir", "get_file_size", "read_binary", "basename", "dirname"]), vec![p]),
                14 => ("ls", vec![p]),
                15 if r.chance(1, 3) => (*r.pick(&["cp_detour", "mv_detour"]), vec!["a.txt".to_string()]),
                15..=17 => ("cp", vec![r.pick(sources).to_string(), p]),
                _ => ("mv", vec![r.pick(sources).to_string(), p]),
            };
            let res = run_op(&base, &root, cmd, &a);
            let mut got = BTreeMap::new();
            walk(&root, "", &mut got);
            let extra: Vec<&String> = got.keys().filter(|k| !POOL.contains(&k.as_str())).collect();
            let (o, has, listing, err) = match &res { Ok((o, l)) => (o.clone().unwrap_or_default(), o.is_some(), l.clone(), String::new()), Err(e) => (String::new(), false, vec![], e.clone()) };
            let mut names: Vec<String> = listing.iter().map(|p| Path::new(p).file_name().map(|x| x.to_string_lossy().into_owned()).unwrap_or_default()).collect();
            names.sort();
            out.rec(&json!({"ev": "op", "hist": h, "cmd": cmd, "a": a, "out": o, "has_out": has, "listing": names, "err": err, "tree": node(&got), "outside_pool": extra}));
            events += 1;
            if !extra.is_empty() {
                break; // the history left the universe (e.g. mv into a directory created a path outside the pool): stop it here
            }
        }
    }
    let _ = std::env::set_current_dir(&home);
    let _ = std::fs::remove_dir_all(&root);
    s.set("histories", json!(nhist));
    s.set("events", json!(events));
    s.finish();
}
