//! C04 / C05: structured programs on the real SDK against the tree-walking reference of Flow / Flow2.
use crate::common::*;
use duckscript::types::command::*;
use duckscript::types::runtime::Context;
use serde_json::{json, Value};
use std::cell::RefCell;
use std::rc::Rc;

#[derive(Clone)]
struct Gtz;
impl Command for Gtz {
    fn name(&self) -> String {
        "gtz".into()
    }
    fn clone_and_box(&self) -> Box<dyn Command> {
        Box::new(self.clone())
    }
    fn run(&self, ctx: CommandInvocationContext) -> CommandResult {
        let n: i64 = ctx.arguments.get(0).and_then(|x| x.parse().ok()).unwrap_or(0);
        CommandResult::Continue(Some((n > 0).to_string()))
    }
}

pub fn real_name(tok: &str) -> String {
    match tok {
        "If!" => "std::flowcontrol::If".into(),
        "ElseIf!" => "std::flowcontrol::ElseIf".into(),
        "Else!" => "std::flowcontrol::Else".into(),
        "EndIf!" => "std::flowcontrol::EndIf".into(),
        "While!" => "std::flowcontrol::While".into(),
        "EndWhile!" => "std::flowcontrol::EndWhile".into(),
        "For!" => "std::flowcontrol::ForIn".into(),
        "EndFor!" => "std::flowcontrol::EndForIn".into(),
        "Function!" => "std::flowcontrol::Function".into(),
        "EndFunction!" => "std::flowcontrol::EndFunction".into(),
        t => t.to_string(),
    }
}
fn cond_text(c: &str) -> &'static str {
    match c {
        "T" => "true",
        "F" => "false",
        "C" => "${c}",
        "E" => "${c} and ( true or false )",
        "K" => "gtz ${c}",
        "N" => "not gtz ${c}",
        "D" => "${d}",
        _ => "false",
    }
}
pub struct Rig {
    pub base: Context,
    pub log: Log,
}
impl Rig {
    pub fn new() -> Rig {
        let log: Log = Rc::new(RefCell::new(vec![]));
        let mut base = sdk_context();
        base.commands.set(Box::new(Emit { name: "emit".into(), log: log.clone(), with_vars: false })).unwrap();
        base.commands.set(Box::new(Dec)).unwrap();
        base.commands.set(Box::new(Gtz)).unwrap();
        let names: Vec<String> = ["std::flowcontrol::If", "std::flowcontrol::ElseIf", "std::flowcontrol::Else", "std::flowcontrol::EndIf", "std::flowcontrol::While",
            "std::flowcontrol::EndWhile", "std::flowcontrol::ForIn", "std::flowcontrol::EndForIn", "std::flowcontrol::Function", "std::flowcontrol::EndFunction"].iter().map(|s| s.to_string()).collect();
        for n in &names {
            assert!(base.commands.commands.contains_key(n), "canonical name {} missing from the registry", n);
        }
        Rig { base, log }
    }
}
fn z(v: &Value) -> String {
    let n = v.as_i64().unwrap();
    if n == 0 { String::new() } else { n.to_string() }
}

/// C04: programs of Flow.tla
pub fn replay(args: &[String]) {
    let rig = Rig::new();
    let mut s = Summary::new();
    let (mut n, mut run, mut skipped) = (0u64, 0u64, 0u64);
    let mut samples = vec![];
    tlc_lines(&args[0], "PROG", |rec| {
        n += 1;
        if rec["fuelout"].as_bool().unwrap() {
            skipped += 1;
            return;
        }
        let mut text = String::from("c = set 2\narr = array 1 2\n");
        for ln in rec["prog"].as_array().unwrap() {
            let cmd = ln["cmd"].as_str().unwrap();
            let cond = ln["cond"].as_str().unwrap();
            let name = real_name(cmd);
            let t = match cmd {
                "emit" => "emit \"${c}\" \"${i}\"".to_string(),
                "dec" => "c = dec ${c}".to_string(),
                "if" | "If!" | "elseif" | "elif" | "ElseIf!" | "while" | "While!" => format!("{} {}", name, cond_text(cond)),
                "for" | "For!" => format!("{} i in ${{arr}}", name),
                _ => name,
            };
            text.push_str(&t);
            text.push('\n');
        }
        rig.log.borrow_mut().clear();
        run += 1;
        let (res, halted) = run_timed(&text, rig.base.clone(), 20000);
        let exp: Vec<Vec<String>> = rec["trace"].as_array().unwrap().iter().map(|e| { let e = e.as_array().unwrap(); vec![(e[0].as_i64().unwrap() + 2).to_string(), e[1].as_i64().unwrap().to_string(), z(&e[2])] }).collect();
        let verdict = if halted { "hang".to_string() } else { match res {
            Err(p) => format!("panic {}", p),
            Ok(Err(e)) => format!("error {}", e.to_string().chars().take(80).collect::<String>()),
            Ok(Ok(c)) => {
                let got: Vec<Vec<String>> = rig.log.borrow().iter().map(|e| { let mut v = vec![e["line"].to_string()]; v.extend(strs(&e["args"])); v }).collect();
                let cv = c.variables.get("c").cloned().unwrap_or_default();
                let iv = c.variables.get("i").cloned().unwrap_or_default();
                if got != exp { format!("trace {:?} expected {:?}", got, exp) }
                else if cv != rec["c"].as_i64().unwrap().to_string() || iv != z(&rec["i"]) { format!("final c={} i={} expected c={} i={}", cv, iv, rec["c"], z(&rec["i"])) }
                else { "ok".into() }
            }
        } };
        if verdict != "ok" {
            let toks: Vec<String> = rec["prog"].as_array().unwrap().iter().map(|l| l["cmd"].as_str().unwrap().to_string()).collect();
            s.mismatch(json!({"script": text, "why": verdict, "tokens": toks}));
        }
        if samples.len() < 3 && run % 3001 == 0 {
            samples.push(json!({"script": text, "expected_emit_trace": exp}));
        }
    });
    s.set("programs", json!(n));
    s.set("executed", json!(run));
    s.set("skipped_reference_out_of_fuel", json!(skipped));
    s.set("samples", json!(samples));
    s.finish();
}

// ---------------------------------------------------------------- leg C: larger random programs
fn gen_block(r: &mut Rng, depth: usize, budget: &mut i64, out: &mut Vec<(String, String)>, in_loop_needs_dec: bool) {
    if in_loop_needs_dec {
        out.push(("dec".into(), "T".into()));
    }
    let n = r.below(4);
    for _ in 0..n {
        if *budget <= 0 {
            break;
        }
        *budget -= 1;
        let pick = |r: &mut Rng, v: &[&str]| r.pick(v).to_string();
        match if depth == 0 { r.below(3) } else { r.below(8) } {
            0 | 1 => out.push(("emit".into(), "T".into())),
            2 => out.push(("dec".into(), "T".into())),
            3 if depth >= 2 && r.chance(1, 6) => {
                // a long inner loop on the second counter: 17 rounds that leave the loops around it where they were
                out.push(("setd".into(), "T".into()));
                out.push((pick(r, &["while", "While!"]), "D".into()));
                out.push(("decd".into(), "T".into()));
                out.push((pick(r, &["end", "end_while", "endwhile", "EndWhile!"]), "T".into()));
            }
            3 | 4 => {
                out.push((pick(r, &["if", "If!"]), pick(r, &["T", "F", "C", "E", "K", "N"])));
                gen_block(r, depth - 1, budget, out, false);
                for _ in 0..r.below(3) {
                    out.push((pick(r, &["elseif", "elif", "ElseIf!"]), pick(r, &["T", "F", "C", "E", "K", "N"])));
                    gen_block(r, depth - 1, budget, out, false);
                }
                if r.chance(1, 2) {
                    out.push((pick(r, &["else", "Else!"]), "T".into()));
                    gen_block(r, depth - 1, budget, out, false);
                }
                out.push((pick(r, &["end", "end", "end_if", "endif", "fi", "EndIf!"]), "T".into()));
            }
            5 | 6 => {
                out.push((pick(r, &["for", "For!"]), "T".into()));
                gen_block(r, depth - 1, budget, out, false);
                out.push((pick(r, &["end", "end", "end_for", "EndFor!"]), "T".into()));
            }
            _ => {
                out.push((pick(r, &["while", "While!"]), pick(r, &["C", "E", "K"])));
                gen_block(r, depth - 1, budget, out, true);
                out.push((pick(r, &["end", "end", "end_while", "endwhile", "EndWhile!"]), "T".into()));
            }
        }
    }
}

pub fn render_flow(prog: &[(String, String)], c0: i64) -> String {
    let mut text = format!("c = set {}\narr = array 1 2\n", c0);
    for (cmd, cond) in prog {
        let name = real_name(cmd);
        let t = match cmd.as_str() {
            "emit" => "emit \"${c}\" \"${i}\"".to_string(),
            "dec" => "c = dec ${c}".to_string(),
            "setd" => "d = set 17".to_string(),
            "decd" => "d = dec ${d}".to_string(),
            "if" | "If!" | "elseif" | "elif" | "ElseIf!" | "while" | "While!" => format!("{} {}", name, cond_text(cond)),
            "for" | "For!" => format!("{} i in ${{arr}}", name),
            _ => name,
        };
        text.push_str(&t);
        text.push('\n');
    }
    text
}

pub fn record(args: &[String]) {
    let seed: u64 = args[0].parse().unwrap();
    let nprog: usize = args[1].parse().unwrap();
    let maxlines: i64 = args[2].parse().unwrap();
    let mut out = Out::create(&args[3]);
    let mut r = Rng::new(seed);
    let rig = Rig::new();
    let mut s = Summary::new();
    let (mut lines, mut emits, mut maxdepth_lines) = (0u64, 0u64, 0usize);
    let mut done = 0;
    let p = |c: &str, d: &str| (c.to_string(), d.to_string());
    // the first programs are fixed: a long inner loop (second counter) inside a while and inside a while > for
    let fixed: Vec<Vec<(String, String)>> = vec![
        vec![p("while", "C"), p("dec", "T"), p("setd", "T"), p("while", "D"), p("decd", "T"), p("end", "T"), p("emit", "T"), p("end", "T"), p("emit", "T")],
        vec![p("while", "C"), p("dec", "T"), p("for", "T"), p("setd", "T"), p("while", "D"), p("decd", "T"), p("end_while", "T"), p("emit", "T"), p("end_for", "T"), p("endwhile", "T"), p("emit", "T")],
    ];
    while done < nprog {
        let mut prog = vec![];
        let mut budget = 5 + r.below(maxlines as usize) as i64;
        if done < fixed.len() { prog = fixed[done].clone(); budget = 0; }
        while budget > 0 && prog.len() < maxlines as usize * 3 {
            let d = 1 + r.below(6);
            gen_block(&mut r, d, &mut budget, &mut prog, false);
        }
        if prog.is_empty() { continue; }
        let text = render_flow(&prog, 3);
        rig.log.borrow_mut().clear();
        let (res, halted) = run_timed(&text, rig.base.clone(), 20000);
        let got: Vec<Value> = rig.log.borrow().iter().map(|e| { let a = strs(&e["args"]); json!([e["line"].as_u64().unwrap() - 2, a[0].parse::<i64>().unwrap_or(-1), a[1].parse::<i64>().unwrap_or(0)]) }).collect();
        if got.len() > 600 { continue; }   // keep the reference within its fuel
        let (ok, why, c, i) = if halted { (false, "hang".to_string(), 0, 0) } else { match res {
            Err(p) => (false, format!("panic {}", p), 0, 0),
            Ok(Err(e)) => (false, format!("error {}", e), 0, 0),
            Ok(Ok(cx)) => (true, String::new(), cx.variables.get("c").and_then(|v| v.parse::<i64>().ok()).unwrap_or(-1), cx.variables.get("i").and_then(|v| v.parse::<i64>().ok()).unwrap_or(0)),
        } };
        lines += prog.len() as u64;
        emits += got.len() as u64;
        maxdepth_lines = maxdepth_lines.max(prog.len());
        out.rec(&json!({"prog": prog.iter().map(|(c, d)| json!({"cmd": c, "cond": d})).collect::<Vec<_>>(), "ok": ok, "why": why, "trace": got, "c": c, "i": i}));
        done += 1;
    }
    s.set("programs", json!(nprog));
    s.set("lines", json!(lines));
    s.set("emits", json!(emits));
    s.set("longest_program", json!(maxdepth_lines));
    s.finish();
}

// ---------------------------------------------------------------- C05: programs of Func.tla
fn num(s: &str) -> i64 {
    s.parse::<i64>().unwrap_or(0)
}
pub fn render_func(prog: &[Value], fnend: usize) -> String {
    let mut text = String::from("c = set 1\narr = array 1 2\n");
    for (k, ln) in prog.iter().enumerate() {
        let cmd = ln["cmd"].as_str().unwrap();
        let _infn = k > 0 && k < fnend;
        let t = match cmd {
            "fn" => if ln["a"].as_bool().unwrap() { "fn <scope> f".to_string() } else { "fn f".to_string() },
            "emit" => "emit \"${c}\" \"${i}\" \"${r}\" \"${1}\"".to_string(),
            "dec" => "c = dec ${c}".to_string(),
            "setr" => "r = set 9".to_string(),
            "if" => match ln["a"].as_str().unwrap() { "C" => "if ${c}".to_string(), "call" => format!("if f {}", ln["arg"]), _ => "if false".to_string() },
            "else" => "else".into(),
            "end" => "end".into(),
            "for" => "for i in ${arr}".into(),
            "call" => if ln["out"].as_bool().unwrap() { format!("r = f {}", ln["arg"]) } else { format!("f {}", ln["arg"]) },
            "ret" => if ln["a"].as_bool().unwrap() { "return ${1}".into() } else { "return".into() },
            x => panic!("unknown line kind {}", x),
        };
        text.push_str(&t);
        text.push('\n');
    }
    text
}

pub fn replay_func(args: &[String]) {
    let rig = Rig::new();
    let mut s = Summary::new();
    let (mut n, mut run, mut skipped) = (0u64, 0u64, 0u64);
    let mut samples = vec![];
    tlc_lines(&args[0], "PROG", |rec| {
        n += 1;
        if rec["skip"].as_bool().unwrap() {
            skipped += 1;
            return;
        }
        let prog = rec["prog"].as_array().unwrap();
        let text = render_func(prog, rec["fnend"].as_u64().unwrap() as usize);
        rig.log.borrow_mut().clear();
        run += 1;
        if std::env::var("VH_TRACE").is_ok() { eprintln!("TRY {}", text.replace('\n', " / ")); }
        let (res, halted) = run_timed(&text, rig.base.clone(), 20000);
        let exp: Vec<Vec<i64>> = rec["trace"].as_array().unwrap().iter().map(|e| e.as_array().unwrap().iter().enumerate().map(|(k, x)| x.as_i64().unwrap() + if k == 0 { 2 } else { 0 }).collect()).collect();
        let verdict = if halted { "hang".to_string() } else { match res {
            Err(p) => format!("panic {}", p),
            Ok(Err(e)) => format!("error {}", e.to_string().chars().take(80).collect::<String>()),
            Ok(Ok(c)) => {
                let got: Vec<Vec<i64>> = rig.log.borrow().iter().map(|e| { let a = strs(&e["args"]); let mut v = vec![e["line"].as_i64().unwrap()]; for k in 0..4 { v.push(a.get(k).map(|x| num(x)).unwrap_or(0)); } v }).collect();
                let g = |k: &str| c.variables.get(k).map(|x| num(x)).unwrap_or(0);
                if got != exp { format!("trace {:?} expected {:?}", got, exp) }
                else if g("c") != rec["c"].as_i64().unwrap() || g("i") != rec["i"].as_i64().unwrap() || g("r") != rec["r"].as_i64().unwrap() {
                    format!("final c={} i={} r={} expected c={} i={} r={}", g("c"), g("i"), g("r"), rec["c"], rec["i"], rec["r"]) }
                else { "ok".into() }
            }
        } };
        if verdict != "ok" {
            let kinds: Vec<String> = prog.iter().map(|l| l["cmd"].as_str().unwrap().to_string()).collect();
            let for_ret = kinds.contains(&"for".to_string()) && kinds.contains(&"ret".to_string());
            s.mismatch(json!({"script": text, "why": verdict, "for_and_return": for_ret, "scoped": prog[0]["a"]}));
        }
        if samples.len() < 3 && run % 9001 == 0 {
            samples.push(json!({"script": text, "expected_emit_trace": exp}));
        }
    });
    s.set("programs", json!(n));
    s.set("executed", json!(run));
    s.set("skipped_fuel_or_open_corner", json!(skipped));
    s.set("samples", json!(samples));
    s.finish();
}

fn fline(cmd: &str, a: Value, out: bool, arg: i64) -> Value {
    json!({"cmd": cmd, "a": a, "out": out, "arg": arg})
}
fn gen_func_block(r: &mut Rng, depth: usize, budget: &mut i64, out: &mut Vec<Value>, infn: bool) {
    let n = 1 + r.below(4);
    for _ in 0..n {
        if *budget <= 0 {
            break;
        }
        *budget -= 1;
        match if depth == 0 { r.below(5) } else { r.below(9) } {
            0 | 1 => out.push(fline("emit", json!("T"), false, 0)),
            2 => if infn && r.chance(1, 3) { out.push(fline("setr", json!("T"), false, 0)) } else { out.push(fline("dec", json!("T"), false, 0)) },
            3 => if infn { out.push(fline("ret", json!(r.chance(1, 2)), false, 0)) } else { let o = r.chance(1, 2); out.push(fline("call", json!("T"), o, if o && r.chance(1, 2) { 8 } else { 5 })) },
            4 => if infn {
                // guarded recursion: only while the counter is positive, and it is decremented first
                out.push(fline("if", json!("C"), false, 5));
                out.push(fline("dec", json!("T"), false, 0));
                out.push(fline("call", json!("T"), false, 6));
                out.push(fline("end", json!("T"), false, 0));
            } else { let o = r.chance(1, 2); out.push(fline("call", json!("T"), o, if o && r.chance(1, 2) { 8 } else { 5 })) },
            5 | 6 => {
                let cond = if !infn && r.chance(1, 3) { "call" } else { *r.pick(&["C", "F", "C"]) };
                out.push(fline("if", json!(cond), false, 5));
                gen_func_block(r, depth - 1, budget, out, infn);
                if r.chance(1, 2) {
                    out.push(fline("else", json!("T"), false, 0));
                    gen_func_block(r, depth - 1, budget, out, infn);
                }
                out.push(fline("end", json!("T"), false, 0));
            }
            _ => {
                out.push(fline("for", json!("T"), false, 0));
                gen_func_block(r, depth - 1, budget, out, infn);
                out.push(fline("end", json!("T"), false, 0));
            }
        }
    }
}

pub fn record_func(args: &[String]) {
    let seed: u64 = args[0].parse().unwrap();
    let nprog: usize = args[1].parse().unwrap();
    let mut out = Out::create(&args[2]);
    let mut r = Rng::new(seed);
    let mut pr = Rng::new(seed ^ 0x5bd1_e995_9e37_79b9);   // the probe programs draw from their own stream: the random programs stay what they were
    let rig = Rig::new();
    let mut s = Summary::new();
    let (mut lines, mut emits, mut longest) = (0u64, 0u64, 0usize);
    let mut done = 0;
    while done < nprog {
        let probe = done % 8 == 3;
        let scoped = if probe { pr.chance(1, 3) } else { r.chance(1, 3) };
        let mut prog = vec![fline("fn", json!(scoped), false, 0)];
        let fnend;
        if probe {
            // fixed probe family: return from inside two or three nested loops (with an `if` level in between now and then), called
            // several times - also from inside a loop of the caller: every call starts every one of its loops afresh
            let k = 2 + pr.below(2);
            let mut opened = 0;
            for lvl in 0..k {
                prog.push(fline("for", json!("T"), false, 0));
                opened += 1;
                if pr.chance(2, 3) { prog.push(fline("emit", json!("T"), false, 0)); }
                if lvl + 1 < k && pr.chance(1, 3) { prog.push(fline("if", json!("C"), false, 5)); opened += 1; }
            }
            prog.push(fline("emit", json!("T"), false, 0));
            if pr.chance(1, 3) {
                prog.push(fline("if", json!("C"), false, 5));
                prog.push(fline("dec", json!("T"), false, 0));
                prog.push(fline("ret", json!(pr.chance(1, 2)), false, 0));
                prog.push(fline("end", json!("T"), false, 0));
            } else {
                prog.push(fline("ret", json!(pr.chance(1, 2)), false, 0));
            }
            for _ in 0..opened {
                prog.push(fline("end", json!("T"), false, 0));
                if pr.chance(1, 3) { prog.push(fline("emit", json!("T"), false, 0)); }
            }
            prog.push(fline("end", json!("T"), false, 0));
            fnend = prog.len() - 1;
            let inloop = pr.chance(1, 2);
            if inloop { prog.push(fline("for", json!("T"), false, 0)); }
            for _ in 0..(2 + pr.below(3)) {
                let o = pr.chance(1, 2);
                prog.push(fline("call", json!("T"), o, if o && pr.chance(1, 2) { 8 } else { 5 }));
                if pr.chance(1, 2) { prog.push(fline("emit", json!("T"), false, 0)); }
            }
            if inloop { prog.push(fline("end", json!("T"), false, 0)); }
            prog.push(fline("emit", json!("T"), false, 0));
        } else {
        let mut budget = 3 + r.below(10) as i64;
        let d = 1 + r.below(4);
        gen_func_block(&mut r, d, &mut budget, &mut prog, true);
        prog.push(fline("end", json!("T"), false, 0));
        fnend = prog.len() - 1;
        let mut budget = 4 + r.below(16) as i64;
        while budget > 0 {
            let d = r.below(4);
            gen_func_block(&mut r, d, &mut budget, &mut prog, false);
        }
        }
        let text = render_func(&prog, fnend);
        rig.log.borrow_mut().clear();
        let (res, halted) = run_timed(&text, rig.base.clone(), 20000);
        let got: Vec<Value> = rig.log.borrow().iter().map(|e| { let a = strs(&e["args"]); let mut v = vec![e["line"].as_i64().unwrap() - 2]; for k in 0..4 { v.push(a.get(k).map(|x| num(x)).unwrap_or(0)); } json!(v) }).collect();
        if got.len() > 500 { continue; }
        let g = |c: &Context, k: &str| c.variables.get(k).map(|x| num(x)).unwrap_or(0);
        let (ok, why, fc, fi, fr) = if halted { (false, "hang".to_string(), 0, 0, 0) } else { match res {
            Err(p) => (false, format!("panic {}", p), 0, 0, 0),
            Ok(Err(e)) => (false, format!("error {}", e), 0, 0, 0),
            Ok(Ok(cx)) => (true, String::new(), g(&cx, "c"), g(&cx, "i"), g(&cx, "r")),
        } };
        lines += prog.len() as u64;
        emits += got.len() as u64;
        longest = longest.max(prog.len());
        out.rec(&json!({"prog": prog, "ok": ok, "why": why, "trace": got, "c": fc, "i": fi, "r": fr}));
        done += 1;
    }
    s.set("programs", json!(nprog));
    s.set("lines", json!(lines));
    s.set("emits", json!(emits));
    s.set("longest_program", json!(longest));
    s.finish();
}
