//! C07: no script can panic, abort or hang the embedding process.
//! Invocations run in a disposable worker subprocess (fresh temp working directory, address-space limit set by
//! the driver); the parent attributes an abnormal exit or a missing return to the invocation in flight.
use crate::common::*;
use duckscript::runner;
use duckscript::types::command::CommandResult;
use duckscript::types::instruction::*;
use duckscript::types::runtime::Context;
use serde_json::json;
use std::io::Write;
use std::path::PathBuf;

pub const EXCLUDED: &[&str] = &["std::ReadUserInput", "std::thread::Sleep", "std::process::Execute", "std::process::Spawn", "std::process::Watchdog", "std::process::Exit",
    "std::net::HttpClient", "std::net::WGet", "std::net::ftp::Get", "std::net::ftp::GetInMemory", "std::net::ftp::List", "std::net::ftp::NLst", "std::net::ftp::Put", "std::net::ftp::PutInMemory"];

/// the real registry, for the spec to enumerate: one record per command
pub fn names(args: &[String]) {
    let mut out = Out::create(&args[0]);
    let c = sdk_context();
    let mut n = 0;
    for name in c.commands.get_all_command_names() {
        let cmd = c.commands.get(&name).unwrap();
        out.rec(&json!({"name": name, "aliases": cmd.aliases(), "excluded": EXCLUDED.contains(&name.as_str())}));
        n += 1;
    }
    println!("{}", json!({"commands": n, "mismatches": 0, "bad": []}));
}

const SETUP: &str = "arr = array a \"b c\" \"\"\nmp = map\nmap_put ${mp} k v\nst = set_new x y\nby = string_to_bytes héllo\nrel = array z\nrelease ${rel}\nv = set value\ncarr = array c\narray_push ${carr} ${carr}\ncmp = map\ncin = array\nmap_put ${cmp} inner ${cin}\narray_push ${cin} ${cmp}\nobj = set [OBJECT]\nobj.a = set 1\nobjx = set sibling\nobj_list.length = set 1\n";
fn instantiate(kind: &str, ctx: &Context, prev: &Option<String>) -> String {
    let h = |k: &str| ctx.variables.get(k).cloned().unwrap_or_default();
    match kind {
        "L" => h("arr"), "M" => h("mp"), "S" => h("st"), "Y" => h("by"), "R" => h("rel"), "CL" => h("carr"), "CM" => h("cmp"), "B" => "handle:zzzzzzzzzzzzzzzzzzzz".into(),
        "PREV" => prev.clone().unwrap_or_default(),
        "E" => String::new(), "0" => "0".into(), "1" => "1".into(), "-1" => "-1".into(), "5" => "5".into(), "HUGE" => "99999999999999999999".into(), "I64" => "9223372036854775808".into(),
        "DEC" => "1.5".into(), "W" => "abc".into(), "MB" => "héllo😀".into(), "SP" => "a b".into(), "QT" => "say \"hi\" #now".into(), "QT2" => "a b #c\"d 'e".into(), "NL" => "two\nlines".into(), "LF" => "\n".into(), "CRLF" => "\r\n".into(),
        "COPY" => "--copy".into(), "-r" => "-r".into(), "COLL" => "--collection".into(), "PREFIX" => "--prefix".into(), "IN" => "in".into(), "SCOPE" => "<scope>".into(),
        "KV" => "a=b".into(), "JSON" => "{\"k\":[1,null,{\"a\":\"b\"}]}".into(), "SEMVER" => "1.2.3".into(), "VAR" => "v".into(), "NOVAR" => "nope".into(), "OBJ" => "obj".into(),
        "F" => "f.txt".into(), "D" => "d".into(), "G" => "d/g.txt".into(), "GLOB" => "*.txt".into(), "NOFILE" => "missing/none.txt".into(), "SEPEXT" => "d/g.txt".into(),
        "EQ" => "=".into(), "PAR" => "(".into(), "AND" => "and".into(),
        other => other.to_string(),
    }
}

/// worker: runs cases [from..) of the file, case `from` starting at invocation `from_j`; appends to the progress file
/// "T i j" before invocation j of case i, "R i j <kind>" after it, "D i" when the case is done
pub fn worker(args: &[String]) {
    let cases = ndjson(&args[0]);
    let from: usize = args[1].parse().unwrap();
    let from_j: usize = args[4].parse().unwrap();
    let mut progress = std::fs::OpenOptions::new().create(true).append(true).open(&args[2]).unwrap();
    let root = PathBuf::from(&args[3]);
    let base = sdk_context();
    let reset = |root: &PathBuf| {
        let _ = std::process::Command::new("chmod").arg("-R").arg("u+rwx").arg(root).output();
        let _ = std::fs::remove_dir_all(root);
        std::fs::create_dir_all(root.join("d")).unwrap();
        std::fs::write(root.join("f.txt"), "F").unwrap();
        std::fs::write(root.join("d/g.txt"), "G").unwrap();
        std::env::set_current_dir(root).unwrap();
    };
    for (i, case) in cases.iter().enumerate().skip(from) {
        reset(&root);
        let mut ctx = runner::run_script(SETUP, base.clone(), Some(quiet_env())).unwrap();
        let mut prev: Option<String> = None;
        let start_j = if i == from { from_j } else { 0 };
        if case.get("probe").is_some() || case.get("text").is_some() {
            if start_j == 0 {
                writeln!(progress, "T {} 0", i).unwrap();
                progress.flush().unwrap();
                let k = if case.get("probe").is_some() {
                    // the include cycle: parse_file on two files that include each other
                    std::fs::write(root.join("a.ds"), "!include_files b.ds\n").unwrap();
                    std::fs::write(root.join("b.ds"), "!include_files a.ds\n").unwrap();
                    match std::panic::catch_unwind(|| duckscript::parser::parse_file("a.ds")) { Err(_) => "panic", Ok(Ok(_)) => "ok", Ok(Err(_)) => "err" }
                } else {
                    let text = uncps(&case["text"]);
                    match std::panic::catch_unwind(std::panic::AssertUnwindSafe(|| runner::run_script(&text, ctx.clone(), Some(quiet_env())))) { Err(_) => "panic", Ok(Ok(_)) => "ok", Ok(Err(_)) => "err" }
                };
                writeln!(progress, "R {} 0 {}", i, k).unwrap();
            }
        } else {
            let fresh = case["fresh"].as_bool().unwrap_or(false);
            let ctx0 = ctx.clone();
            let mut touched = 0;
            for (j, inv) in case["seq"].as_array().unwrap().iter().enumerate() {
                if j < start_j { continue; }
                if fresh { ctx = ctx0.clone(); prev = None; touched += 1; if touched % 64 == 0 { reset(&root); } }
                let name = inv["cmd"].as_str().unwrap();
                let args: Vec<String> = strs(&inv["args"]).iter().map(|k| instantiate(k, &ctx, &prev)).collect();
                writeln!(progress, "T {} {}", i, j).unwrap();
                progress.flush().unwrap();
                let mut si = ScriptInstruction::new();
                si.command = Some(name.to_string());
                si.output = Some("o".into());
                si.arguments = Some(args.iter().map(|a| a.replace('\\', "\\\\").replace('$', "\\$").replace('%', "\\%")).collect());
                let ins = Instruction { meta_info: InstructionMetaInfo::new(), instruction_type: InstructionType::Script(si) };
                let mut env = quiet_env();
                let r = std::panic::catch_unwind(std::panic::AssertUnwindSafe(|| runner::run_instruction(&mut ctx.commands, &mut ctx.variables, &mut ctx.state, &vec![], ins, 0, &mut env)));
                let k = match r {
                    Err(_) => "panic",
                    Ok((CommandResult::Continue(v), _)) => { prev = v; "continue" }
                    Ok((CommandResult::GoTo(_, _), _)) => "goto",
                    Ok((CommandResult::Error(_), _)) => "error",
                    Ok((CommandResult::Crash(_), _)) => "crash",
                    Ok((CommandResult::Exit(_), _)) => "exit",
                };
                writeln!(progress, "R {} {} {}", i, j, k).unwrap();
                let _ = std::env::set_current_dir(&root);
            }
        }
        writeln!(progress, "D {}", i).unwrap();
        progress.flush().unwrap();
    }
}

/// parent: drives workers over all cases; writes one record per case for the trace spec:
/// processor time (user + system, ms) consumed so far by process `pid` (0 if it cannot be read)
fn cpu_ms(pid: u32) -> u64 {
    let stat = std::fs::read_to_string(format!("/proc/{}/stat", pid)).unwrap_or_default();
    let rest = match stat.rfind(')') { Some(p) => &stat[p + 1..], None => return 0 };
    let f: Vec<&str> = rest.split_whitespace().collect();
    if f.len() < 13 { return 0; }
    (f[11].parse::<u64>().unwrap_or(0) + f[12].parse::<u64>().unwrap_or(0)) * 10
}
/// {case, label, n (invocations), returns: [kind or "panic"/"hang"/"abort" per invocation]}
pub fn run(args: &[String]) {
    let cases = ndjson(&args[0]);
    let mut out = Out::create(&args[1]);
    let work = PathBuf::from(&args[2]);
    let per_inv_ms: u64 = args.get(3).and_then(|x| x.parse().ok()).unwrap_or(5000);
    let progress = work.join("c07_progress.txt");
    let root = work.join("c07_dir");
    let exe = std::env::current_exe().unwrap();
    let mut s = Summary::new();
    let n_of = |c: &serde_json::Value| c.get("seq").and_then(|q| q.as_array()).map(|a| a.len()).unwrap_or(1);
    let mut results: Vec<Vec<String>> = cases.iter().map(|c| vec![String::new(); n_of(c)]).collect();
    let (mut ci, mut cj) = (0usize, 0usize);
    let mut abnormal = 0u64;
    let mut restarts = 0u64;
    let mut confirmed: std::collections::HashSet<(usize, usize)> = std::collections::HashSet::new();
    let mut unconfirmed = 0i64; // abnormal ends that did not happen again when the case was run a second time
    while ci < cases.len() {
        std::fs::write(&progress, "").unwrap();
        let mut child = std::process::Command::new(&exe).arg("c07-worker").arg(&args[0]).arg(ci.to_string()).arg(&progress).arg(&root).arg(cj.to_string())
            .stdout(std::process::Stdio::null()).stderr(std::process::Stdio::null()).spawn().expect("spawn worker");
        restarts += 1;
        let mut consumed = 0usize; // bytes of the progress file consumed
        let mut in_flight: Option<(usize, usize, std::time::Instant, u64)> = None;
        let mut done_to = ci;
        loop {
            let text = std::fs::read(&progress).unwrap_or_default();
            let mut advanced = false;
            while let Some(pos) = text[consumed..].iter().position(|b| *b == b'\n') {
                let line = String::from_utf8_lossy(&text[consumed..consumed + pos]).into_owned();
                consumed += pos + 1;
                advanced = true;
                let p: Vec<&str> = line.split(' ').collect();
                match p[0] {
                    "T" => in_flight = Some((p[1].parse().unwrap(), p[2].parse().unwrap(), std::time::Instant::now(), cpu_ms(child.id()))),
                    "R" => { let (i, j): (usize, usize) = (p[1].parse().unwrap(), p[2].parse().unwrap()); results[i][j] = p[3].to_string(); in_flight = None; }
                    "D" => { done_to = p[1].parse::<usize>().unwrap() + 1; }
                    _ => {}
                }
            }
            if done_to >= cases.len() { let _ = child.wait(); break; }
            let exited = child.try_wait().ok().flatten();
            if let Some((i, j, t0, cpu0)) = in_flight {
                // a hang is declared by the processor time the worker spent inside this one invocation (half the limit), or, for a
                // blocked worker, by six times the limit of wall time: a loaded machine alone cannot produce either
                let wall = t0.elapsed().as_millis() as u64;
                let hung = wall > per_inv_ms && (cpu_ms(child.id()).saturating_sub(cpu0) > per_inv_ms / 2 || wall > 6 * per_inv_ms);
                if (exited.is_some() && !advanced) || hung {
                    let why = if exited.is_some() { "abort" } else { "hang" };
                    let _ = child.kill();
                    let _ = child.wait();
                    // an abnormal end counts only when it happens again: the case is run once more in a new worker (a sequence
                    // from its first invocation, so that its state is rebuilt; an independent invocation on its own)
                    if confirmed.insert((i, j)) {
                        unconfirmed += 1;
                        ci = i;
                        cj = if cases[i].get("fresh").and_then(|x| x.as_bool()).unwrap_or(false) { j } else { 0 };
                        break;
                    }
                    unconfirmed -= 1;
                    abnormal += 1;
                    results[i][j] = why.to_string();
                    ci = i;
                    cj = j + 1;
                    if cj >= results[i].len() { ci = i + 1; cj = 0; }
                    break;
                }
            } else if exited.is_some() && !advanced {
                // the worker ended between invocations without finishing: tool problem
                eprintln!("worker stopped unexpectedly after case {}", done_to);
                std::process::exit(2);
            }
            if !advanced { std::thread::sleep(std::time::Duration::from_millis(2)); }
        }
        if done_to >= cases.len() { break; }
    }
    let mut invocations = 0u64;
    for (i, c) in cases.iter().enumerate() {
        invocations += results[i].len() as u64;
        let bad: Vec<usize> = results[i].iter().enumerate().filter(|(_, k)| ["panic", "hang", "abort", ""].contains(&k.as_str())).map(|(j, _)| j).collect();
        for j in &bad {
            let inv = c.get("seq").map(|q| q[*j].clone()).unwrap_or(json!({"special": c.get("label").cloned().unwrap_or(json!("text"))}));
            s.mismatch(json!({"case": i, "label": c.get("label"), "invocation": inv, "why": if results[i][*j].is_empty() { "not run".to_string() } else { results[i][*j].clone() }}));
        }
        out.rec(&json!({"case": i, "label": c.get("label").cloned().unwrap_or(json!("")), "n": results[i].len(), "returns": results[i]}));
    }
    let _ = std::process::Command::new("chmod").arg("-R").arg("u+rwx").arg(&root).output();
    let _ = std::fs::remove_dir_all(&root);
    let _ = std::fs::remove_file(&progress);
    s.set("cases", json!(cases.len()));
    s.set("invocations", json!(invocations));
    s.set("abnormal", json!(abnormal));
    s.set("worker_starts", json!(restarts));
    s.set("not_reproduced", json!(unconfirmed));
    s.finish();
}
