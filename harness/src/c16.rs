//! C16: text / comparison / arithmetic commands against Strings.tla.
use crate::c02::{lit_arg as quote_arg, make_writable};
use crate::common::*;
use duckscript::types::runtime::Context;
use serde_json::{json, Value};

fn run1(base: &Context, line: &str) -> Result<(Context, Option<String>), String> {
    // the line, then a reading of the last error: an error result is "false" AND a reported error, a value is neither
    match run_guarded(&format!("{}vh_e = get_last_error\n", line), base.clone(), Some(quiet_env())) {
        Err(p) => Err(format!("panic {}", p)),
        Ok(Err(e)) => Err(format!("run failed {}", e)),
        Ok(Ok(c)) => { let o = c.variables.get("o").cloned(); Ok((c, o)) }
    }
}
fn reported(c: &Context) -> bool {
    c.variables.get("vh_e").map(|e| !e.is_empty()).unwrap_or(false)
}
pub fn unit(_args: &[String]) {
    let base = sdk_context();
    let (_, o) = run1(&base, "o = strlen é😀\n").unwrap();
    let u = match o.as_deref() { Some("6") => "byte", Some("2") => "char", x => panic!("strlen of the probe gave {:?}", x) };
    println!("{}", json!({"unit": u, "mismatches": 0, "bad": []}));
}
fn check(exp: &Value, o: &Option<String>, c: &Context) -> Result<(), String> {
    let k = exp["k"].as_str().unwrap();
    if ["val", "num", "bool", "list", "nums"].contains(&k) && reported(c) {
        return Err(format!("an error was reported ({:?}) where a value is specified (output {:?})", c.variables.get("vh_e"), o));
    }
    match k {
        "any" => Ok(()),
        "val" => { let v = uncps(&exp["v"]); if o.as_deref() == Some(v.as_str()) || (v.is_empty() && o.is_none()) { Ok(()) } else { Err(format!("output {:?} expected {:?}", o, v)) } }
        "none" => if o.is_none() { Ok(()) } else { Err(format!("output {:?} expected none", o)) },
        "err" => if o.as_deref() == Some("false") && reported(c) { Ok(()) } else { Err(format!("output {:?}, error reported: {}; expected the error result", o, reported(c))) },
        "num" => if o.as_deref() == Some(exp["n"].to_string().as_str()) { Ok(()) } else { Err(format!("output {:?} expected {}", o, exp["n"])) },
        "bool" => if o.as_deref() == Some(exp["b"].to_string().as_str()) { Ok(()) } else { Err(format!("output {:?} expected {}", o, exp["b"])) },
        "list" => { let want: Vec<String> = exp["v"].as_array().unwrap().iter().map(uncps).collect();
            match o { Some(h) if h.starts_with("handle:") => { let got = crate::c11::read_array(c, h)?; if got == want { Ok(()) } else { Err(format!("pieces {:?} expected {:?}", got, want)) } } x => Err(format!("no array handle: {:?}", x)) } }
        "nums" => { let want: Vec<String> = exp["v"].as_array().unwrap().iter().map(|x| x.to_string()).collect();
            match o { Some(h) if h.starts_with("handle:") => { let got = crate::c11::read_array(c, h)?; if got == want { Ok(()) } else { Err(format!("range {:?} expected {:?}", got, want)) } } x => Err(format!("no array handle: {:?}", x)) } }
        k => Err(format!("unknown descriptor {}", k)),
    }
}
fn dec(th: i64) -> String {
    if th % 1000 == 0 { (th / 1000).to_string() } else { format!("{}{}.{:03}", if th < 0 { "-" } else { "" }, th.abs() / 1000, th.abs() % 1000).trim_end_matches('0').to_string() }
}
fn expr_text(e: &Value) -> String {
    if e["op"] == "n" { e["v"].to_string() } else { format!("( {} {} {} )", expr_text(&e["l"]), e["op"].as_str().unwrap(), expr_text(&e["r"])) }
}

pub fn replay(args: &[String]) {
    let base = sdk_context();
    let mut s = Summary::new();
    let (mut states, mut cases) = (0u64, 0u64);
    let mut samples = vec![];
    let mut one = |s: &mut Summary, line: String, exp: &Value, label: Value| {
        cases += 1;
        match run1(&base, &line) {
            Err(e) => s.mismatch(json!({"case": label, "line": line, "why": e})),
            Ok((c, o)) => if let Err(e) = check(exp, &o, &c) { s.mismatch(json!({"case": label, "line": line, "why": e})); } else if samples.len() < 4 && cases % 7919 == 0 { samples.push(json!({"line": line, "output": o})); },
        }
    };
    tlc_lines(&args[0], "CASES", |rec| {
        states += 1;
        for c in rec["plain"].as_array().unwrap() {
            let cmd = c["cmd"].as_str().unwrap();
            let a: Vec<String> = c["args"].as_array().unwrap().iter().map(uncps).collect();
            let line = format!("o = {} {}\n", cmd, a.iter().map(|x| quote_arg(x)).collect::<Vec<_>>().join(" "));
            one(&mut s, line, &c["exp"], json!({"cmd": cmd, "args": a}));
        }
        for c in rec["indexed"].as_array().unwrap() {
            let a: Vec<String> = c["args"].as_array().unwrap().iter().map(uncps).collect();
            let ints: Vec<String> = c["ints"].as_array().unwrap().iter().map(|x| x.to_string()).collect();
            let line = format!("o = substring {} {}\n", quote_arg(&a[0]), ints.join(" "));
            one(&mut s, line, &c["exp"], json!({"cmd": "substring", "args": a, "ints": ints}));
        }
    });
    tlc_lines(&args[0], "NUMCASES", |rec| {
        for c in rec["cmp"].as_array().unwrap() {
            let line = format!("o = {} {} {}\n", c["cmd"].as_str().unwrap(), dec(c["a"].as_i64().unwrap()), dec(c["b"].as_i64().unwrap()));
            one(&mut s, line, &c["exp"], json!({"cmd": c["cmd"], "a": c["a"], "b": c["b"]}));
        }
        for c in rec["badcmp"].as_array().unwrap() {
            let line = format!("o = {} {} {}\n", c["cmd"].as_str().unwrap(), quote_arg(c["a"].as_str().unwrap()), quote_arg(c["b"].as_str().unwrap()));
            one(&mut s, line, &json!({"k": "err"}), json!({"cmd": c["cmd"], "a": c["a"], "b": c["b"], "out_of_domain": true}));
        }
        for c in rec["calc"].as_array().unwrap() {
            let line = format!("o = calc {}\n", expr_text(&c["e"]));
            one(&mut s, line, &json!({"k": "num", "n": c["exp"]}), json!({"cmd": "calc", "expr": expr_text(&c["e"])}));
        }
        for c in rec["range"].as_array().unwrap() {
            let line = format!("o = range {} {}\n", c["a"], c["b"]);
            one(&mut s, line, &c["exp"], json!({"cmd": "range", "a": c["a"], "b": c["b"]}));
        }
        for bad in ["o = less_than abc 1\n", "o = greater_than 1 \"\"\n", "o = calc 1 +\n", "o = range a 3\n", "o = substring abc x\n", "o = substring abc 0 y\n"] {
            one(&mut s, bad.to_string(), &json!({"k": "err"}), json!({"cmd": "out-of-domain", "line": bad}));
        }
    });
    s.set("texts", json!(states));
    s.set("cases", json!(cases));
    s.set("samples", json!(samples));
    s.finish();
}

const ALPHA: &[char] = &['a', 'b', 'A', 'Z', 'é', 'É', '😀', ' ', ' ', '\t', '\u{a0}', '\u{3000}', 'x', '/', ',', '1', '中', '\u{10ffff}', '"', '#', '\n'];
const NASTY: &[&str] = &["", " ", "  ", "\n", "\r\n", "\t", "\u{feff}", "\u{feff}x", "\u{a0}", "0", "-1", "false", "no", "${x}", "%{x}", "$", "%", "#", "\"", "=", "a=b", "'", ":", "!", " a", "a ", "--x", "-", "..", "/", "//", "aa", "aaa", "abab", "\u{10ffff}"];
fn rand_text(r: &mut Rng, maxlen: usize, letters_only: bool) -> String {
    if !letters_only && r.chance(1, 8) { let t: &str = *r.pick(NASTY); return make_writable(t); }
    let n = if r.chance(1, 10) { 0 } else { r.below(maxlen + 1) };
    let t: String = (0..n).map(|_| if letters_only { *r.pick(&['a', 'b', 'A', 'Z', 'é', 'É', 'q', 'M']) } else if r.chance(4, 5) { *r.pick(ALPHA) } else { char::from_u32(0x21 + r.below(0x3000) as u32).unwrap_or('x') }).collect();
    make_writable(&t)
}
pub fn record(args: &[String]) {
    let seed: u64 = args[0].parse().unwrap();
    let n: usize = args[1].parse().unwrap();
    let mut out = Out::create(&args[2]);
    let base = sdk_context();
    let mut r = Rng::new(seed);
    let mut s = Summary::new();
    for _ in 0..n {
        let cmd = *r.pick(&["strlen", "is_empty", "indexof", "last_indexof", "contains", "starts_with", "ends_with", "equals", "concat", "replace", "split", "trim", "trim_start", "trim_end", "uppercase", "lowercase", "substring", "substring", "substring"]);
        let text = rand_text(&mut r, 12, cmd == "uppercase" || cmd == "lowercase");
        let chars: Vec<char> = text.chars().collect();
        let needle: String = if !chars.is_empty() && r.chance(2, 3) { let i = r.below(chars.len()); let j = i + 1 + r.below((chars.len() - i).min(3)); chars[i..j].iter().collect() } else { rand_text(&mut r, 3, false) };
        let (a, ints): (Vec<String>, Vec<i64>) = match cmd {
            "strlen" | "is_empty" | "trim" | "trim_start" | "trim_end" | "uppercase" | "lowercase" => (vec![text], vec![]),
            "concat" => (vec![text, needle, rand_text(&mut r, 4, false)], vec![]),
            "replace" => (vec![text, needle, rand_text(&mut r, 3, false)], vec![]),
            "substring" => { let size = text.len() as i64; let k = r.below(3); let ints = (0..k).map(|_| r.below((size + 4) as usize) as i64 - 2).collect(); (vec![text], ints) }
            _ => (vec![text, if cmd == "equals" && r.chance(1, 2) { a_clone(&chars) } else { needle }], vec![]),
        };
        let line = format!("o = {} {} {}\n", cmd, a.iter().map(|x| quote_arg(x)).collect::<Vec<_>>().join(" "), ints.iter().map(|x| x.to_string()).collect::<Vec<_>>().join(" "));
        let (err, o, list) = match run1(&base, &line) {
            Err(e) => (e, None, None),
            Ok((c, o)) => { let list = if cmd == "split" { o.as_deref().filter(|h| h.starts_with("handle:")).and_then(|h| crate::c11::read_array(&c, h).ok()) } else { None }; (String::new(), o, list) }
        };
        out.rec(&json!({"cmd": cmd, "args": a.iter().map(|x| cps(x)).collect::<Vec<_>>(), "ints": ints, "err": err, "has_out": o.is_some(), "out": cps(o.as_deref().unwrap_or("")),
                        "is_list": list.is_some(), "list": list.unwrap_or_default().iter().map(|x| cps(x)).collect::<Vec<_>>()}));
    }
    s.set("cases", json!(n));
    s.finish();
}
fn a_clone(chars: &[char]) -> String {
    chars.iter().collect()
}
