//! C20: the duck executable against Cli.tla and against the in-process library run.
use crate::common::*;
use duckscript::types::env::Env;
use serde_json::{json, Value};
use std::cell::RefCell;
use std::io::Write;
use std::path::{Path, PathBuf};
use std::process::Command as Proc;
use std::rc::Rc;

struct Cap(Rc<RefCell<Vec<u8>>>);
impl Write for Cap {
    fn write(&mut self, b: &[u8]) -> std::io::Result<usize> {
        self.0.borrow_mut().extend_from_slice(b);
        Ok(b.len())
    }
    fn flush(&mut self) -> std::io::Result<()> {
        Ok(())
    }
}
pub fn render(s: &Value, marker: &Path) -> String {
    let mut t = format!("writefile \"{}\" x\n", marker.to_string_lossy());
    for (i, k) in s["st"].as_array().unwrap().iter().enumerate() {
        let mut line = String::new();
        if i == 0 {
            match s["label"].as_str().unwrap() { "lower" => line.push_str(":lbl "), "Upper" => line.push_str(":Lbl "), _ => {} }
            match s["out"].as_str().unwrap() { "lower" => line.push_str("res = "), "Upper" => line.push_str("Res = "), _ => {} }
        }
        line.push_str(match k.as_str().unwrap() {
            "echo" => "echo hello",
            "xecho" => "exec echo child",
            "crash" => "assert_fail boom",
            "exit3" => "exit 3",
            "exit256" => "exit 256",
            "exit0" => "exit 0",
            "badquote" => "echo \"unterminated",
            "unknowncmd" => "nosuchcommand x",
            "none" => "",
            "pre" => "!print pp",
            "out" => "res2 =",
            "OUT" => "Res2 =",
            "lbl" => ":lbl2",
            "LBL" => ":Lbl2",
            "OUTN" => "Ünit2 =",
            "LBLN" => ":Étape2",
            _ => "ECHO x",
        });
        t.push_str(&line);
        t.push('\n');
    }
    t
}
/// in-process: (succeeded, captured output)
fn library(text: &str, file: Option<&Path>) -> (bool, String) {
    let buf = Rc::new(RefCell::new(vec![]));
    let env = Env::new(Some(Box::new(Cap(buf.clone()))), Some(Box::new(std::io::sink())), None);
    let ctx = sdk_context();
    let r = std::panic::catch_unwind(std::panic::AssertUnwindSafe(|| match file {
        Some(f) => duckscript::runner::run_script_file(&f.to_string_lossy(), ctx, Some(env)),
        None => duckscript::runner::run_script(text, ctx, Some(env)),
    }));
    let ok = matches!(r, Ok(Ok(_)));
    let out = String::from_utf8_lossy(&buf.borrow()).into_owned();
    (ok, out)
}

pub fn replay(args: &[String]) {
    let dir = PathBuf::from(&args[1]).join("c20_dir");
    let _ = std::fs::remove_dir_all(&dir);
    std::fs::create_dir_all(&dir).unwrap();
    let dir = dir.canonicalize().unwrap();
    let duck = &args[2];
    let marker = dir.join("marker.txt");
    let script_path = dir.join("script.ds");
    let mut s = Summary::new();
    let (mut cases, mut runs) = (0u64, 0u64);
    let mut samples = vec![];
    tlc_lines(&args[0], "CASE", |rec| {
        cases += 1;
        let text = render(&rec["script"], &marker);
        std::fs::write(&script_path, &text).unwrap();
        let mut todo: Vec<(String, bool, &Value)> = vec![];
        for (f, st) in rec["forms"].as_object().unwrap() { todo.push((f.clone(), false, st)); }
        for (f, st) in rec["missing"].as_object().unwrap() { todo.push((f.clone(), true, st)); }
        for (form, missing, exp) in todo {
            runs += 1;
            let _ = std::fs::remove_file(&marker);
            let target = if missing { dir.join("nofile.ds") } else { script_path.clone() };
            let mut cmd = Proc::new(duck);
            cmd.current_dir(&dir);
            match form.as_str() {
                "file" => { cmd.arg(&target); }
                "-e" | "--eval" => { cmd.arg(&form).arg(&text); }
                "-l" | "--lint" => { cmd.arg(&form).arg(&target); }
                x => { cmd.arg(x); }
            }
            let o = match cmd.output() { Ok(o) => o, Err(e) => { s.mismatch(json!({"form": form, "why": format!("cannot run duck: {}", e)})); continue; } };
            let stdout = String::from_utf8_lossy(&o.stdout).into_owned();
            let status0 = o.status.code() == Some(0);
            let errline = stdout.lines().any(|l| l.starts_with("Error:"));
            let ran = marker.exists();
            let echoes = stdout.lines().filter(|l| l.trim() == "hello").count() as u64;
            let mut why = vec![];
            if status0 != exp["status0"].as_bool().unwrap() { why.push(format!("exit status {:?}, expected {}", o.status.code(), if exp["status0"].as_bool().unwrap() { "0" } else { "non-zero" })); }
            if errline != exp["errline"].as_bool().unwrap() { why.push(format!("'Error:' line present={}", errline)); }
            if ran != exp["ran"].as_bool().unwrap() { why.push(format!("script executed={} (marker file)", ran)); }
            if echoes != exp["echoes"].as_u64().unwrap() { why.push(format!("{} echo lines, expected {}", echoes, exp["echoes"])); }
            let lines: Vec<String> = stdout.lines().map(|l| l.trim().to_string()).filter(|l| l == "hello" || l == "child").collect();
            if json!(lines) != exp["lines"] { why.push(format!("output lines {:?}, expected {}", lines, exp["lines"])); }
            let pp = stdout.lines().filter(|l| l.trim() == "pp").count() as u64;
            if Some(pp) != exp["pp"].as_u64() { why.push(format!("{} parse-time print lines, expected {}", pp, exp["pp"])); }
            let has_child = rec["script"]["st"].as_array().unwrap().iter().any(|k| k == "xecho");
            // the same output as the library run
            if !missing && !has_child && ["file", "-e", "--eval"].contains(&form.as_str()) {
                let _ = std::fs::remove_file(&marker);
                let (lib_ok, lib_out) = library(&text, if form == "file" { Some(&script_path) } else { None });
                let cli_out: String = stdout.lines().filter(|l| !l.starts_with("Error:") && l.trim() != "pp").map(|l| format!("{}\n", l)).collect();
                let lib_norm: String = lib_out.lines().map(|l| format!("{}\n", l)).collect();
                if lib_ok != status0 { why.push(format!("library run ok={} but exit status {:?}", lib_ok, o.status.code())); }
                if cli_out != lib_norm { why.push(format!("stdout {:?} differs from the library's output {:?}", cli_out, lib_norm)); }
            }
            if !why.is_empty() {
                s.mismatch(json!({"form": form, "missing_file": missing, "script": text, "outcome": rec["outcome"], "why": why.join("; "), "stdout": stdout.chars().take(300).collect::<String>()}));
            }
            if samples.len() < 3 && runs % 1201 == 0 { samples.push(json!({"form": form, "script": text, "exit": o.status.code(), "stdout": stdout.chars().take(200).collect::<String>()})); }
        }
    });
    let _ = std::fs::remove_dir_all(&dir);
    s.set("scripts", json!(cases));
    s.set("runs", json!(runs));
    s.set("samples", json!(samples));
    s.finish();
}

pub fn record(args: &[String]) {
    let seed: u64 = args[0].parse().unwrap();
    let n: usize = args[1].parse().unwrap();
    let mut out = Out::create(&args[2]);
    let dir = PathBuf::from(&args[3]).join("c20_rec");
    let _ = std::fs::remove_dir_all(&dir);
    std::fs::create_dir_all(&dir).unwrap();
    let dir = dir.canonicalize().unwrap();
    let duck = &args[4];
    let marker = dir.join("marker.txt");
    let script_path = dir.join("script.ds");
    let mut r = Rng::new(seed);
    let mut s = Summary::new();
    for _ in 0..n {
        let len = 1 + r.below(10);
        let mut st: Vec<&str> = (0..len).map(|_| *r.pick(&["echo", "echo", "echo", "echo", "xecho", "crash", "exit3", "exit256", "exit0", "badquote", "unknowncmd", "ECHO", "none", "out", "out", "OUT", "lbl", "lbl", "LBL", "pre", "OUTN", "LBLN"])).collect();
        if ["out", "OUT", "lbl", "LBL", "pre", "OUTN", "LBLN"].contains(&st[0]) { st[0] = "none"; }
        let missing = r.chance(1, 15);
        let script = json!({"st": st, "label": *r.pick(&["none", "lower", "Upper"]), "out": *r.pick(&["none", "none", "lower", "Upper"]), "missing": missing});
        let form = if missing { *r.pick(&["file", "-l", "--lint"]) } else { *r.pick(&["file", "file", "-e", "--eval", "-l", "--lint", "--version", "--help", "-h"]) };
        let text = render(&script, &marker);
        std::fs::write(&script_path, &text).unwrap();
        let _ = std::fs::remove_file(&marker);
        let target = if missing { dir.join("nofile.ds") } else { script_path.clone() };
        let mut cmd = Proc::new(duck);
        cmd.current_dir(&dir);
        match form { "file" => { cmd.arg(&target); } "-e" | "--eval" => { cmd.arg(form).arg(&text); } "-l" | "--lint" => { cmd.arg(form).arg(&target); } x => { cmd.arg(x); } }
        let o = cmd.output().expect("run duck");
        let stdout = String::from_utf8_lossy(&o.stdout).into_owned();
        let obs = json!({"status0": o.status.code() == Some(0), "errline": stdout.lines().any(|l| l.starts_with("Error:")), "ran": marker.exists(),
                         "echoes": stdout.lines().filter(|l| l.trim() == "hello").count(),
                         "lines": stdout.lines().map(|l| l.trim().to_string()).filter(|l| l == "hello" || l == "child").collect::<Vec<_>>(),
                         "pp": stdout.lines().filter(|l| l.trim() == "pp").count()});
        let mut same = true;
        if !missing && !st.contains(&"xecho") && ["file", "-e", "--eval"].contains(&form) {
            let (lib_ok, lib_out) = library(&text, if form == "file" { Some(&script_path) } else { None });
            let cli_out: String = stdout.lines().filter(|l| !l.starts_with("Error:") && l.trim() != "pp").map(|l| format!("{}\n", l)).collect();
            let lib_norm: String = lib_out.lines().map(|l| format!("{}\n", l)).collect();
            same = lib_ok == (o.status.code() == Some(0)) && cli_out == lib_norm;
        }
        out.rec(&json!({"form": form, "script": script, "obs": obs, "same_output": same}));
    }
    let _ = std::fs::remove_dir_all(&dir);
    s.set("cases", json!(n));
    s.finish();
}
