"""Shared plumbing for the duckscript model-based checks.

Every check is three legs (DESIGN.md section 2.1):
  A  TLC model-checks a TLA+ spec under /verif/spec
  B  TLC-emitted cases/behaviours are replayed into the real code by the Rust harness (vh)
  C  traces recorded from the real code by vh are validated by a TLA+ trace spec
This module runs TLC, builds/runs the harness, applies the known-findings file,
writes evidence and sets the exit code (0 held / 1 VIOLATION / 2 tool error).
"""
import json, os, re, shutil, subprocess, sys, time, hashlib

ROOT = os.path.dirname(os.path.dirname(os.path.abspath(__file__)))
SPEC = os.path.join(ROOT, "spec")
HARNESS = os.path.join(ROOT, "harness")
WORK = os.path.join(ROOT, "work")
EVID = os.path.join(ROOT, "evidence")
REPLAYS = os.path.join(ROOT, "replays")
JAR = "/opt/veriftools/tla/tla2tools.jar:/opt/veriftools/tla/CommunityModules-deps.jar"
VH = os.path.join(HARNESS, "target", "debug", "vh")


class ToolError(Exception):
    pass


def log(*a):
    print(*a, file=sys.stderr, flush=True)


def workdir(pid):
    d = os.path.join(WORK, pid)
    os.makedirs(d, exist_ok=True)
    return d


def clean(d):
    shutil.rmtree(d, ignore_errors=True)
    os.makedirs(d, exist_ok=True)


# --------------------------------------------------------------------------- harness
_built = False


def build_harness():
    """cargo build of /verif/harness; path deps on /repo => always the current working tree."""
    global _built
    if _built:
        return VH
    lock = os.path.join(HARNESS, "Cargo.lock")
    if not os.path.exists(lock):
        shutil.copy("/repo/Cargo.lock", lock)
    env = dict(os.environ, CARGO_NET_OFFLINE="true")
    t0 = time.time()
    p = subprocess.run(["cargo", "build", "--offline", "--quiet"], cwd=HARNESS, env=env,
                       stdout=subprocess.PIPE, stderr=subprocess.STDOUT, text=True)
    if p.returncode != 0:
        log(p.stdout[-4000:])
        raise ToolError("harness build failed")
    log("[build] harness %.1fs" % (time.time() - t0))
    _built = True
    return VH


def build_duck():
    """the duck CLI built from /repo's working tree into the harness target dir."""
    env = dict(os.environ, CARGO_NET_OFFLINE="true")
    tgt = os.path.join(HARNESS, "target", "cli")
    p = subprocess.run(["cargo", "build", "--offline", "--quiet", "--manifest-path", "/repo/Cargo.toml",
                        "-p", "duckscript_cli", "--target-dir", tgt], env=env,
                       stdout=subprocess.PIPE, stderr=subprocess.STDOUT, text=True)
    if p.returncode != 0:
        log(p.stdout[-4000:])
        raise ToolError("duck build failed")
    return os.path.join(tgt, "debug", "duck")


def vh(args, timeout=1800, cwd=None, stdin=None, mem_gb=8, ok_codes=(0,)):
    """run the harness; returns stdout. A non-listed exit status is a tool error."""
    build_harness()
    pre = "ulimit -v %d; exec " % (mem_gb * 1024 * 1024)
    cmd = ["bash", "-c", pre + '"$@"', "vh", VH] + [str(a) for a in args]
    t0 = time.time()
    try:
        p = subprocess.run(cmd, cwd=cwd, stdout=subprocess.PIPE, stderr=subprocess.PIPE, text=True,
                           timeout=timeout, input=stdin)
    except subprocess.TimeoutExpired:
        raise ToolError("harness timeout: vh %s" % " ".join(map(str, args[:3])))
    if p.returncode not in ok_codes:
        log(p.stderr[-3000:])
        raise ToolError("harness vh %s exited %d" % (" ".join(map(str, args[:3])), p.returncode))
    if p.stderr.strip():
        log(p.stderr[-1500:])
    log("[vh] %s %.1fs" % (" ".join(map(str, args[:2])), time.time() - t0))
    return p.stdout


def vh_json(args, **kw):
    """harness commands print one JSON summary object as their last stdout line."""
    out = vh(args, **kw)
    lines = [l for l in out.split("\n") if l.strip()]
    if not lines:
        raise ToolError("harness printed nothing: %s" % args[:2])
    try:
        return json.loads(lines[-1])
    except Exception:
        raise ToolError("harness summary not JSON: %r" % lines[-1][:300])


# --------------------------------------------------------------------------- TLC
class TlcResult:
    def __init__(self):
        self.generated = 0
        self.distinct = 0
        self.depth = 0
        self.ok = False
        self.violated = None      # name of violated invariant / property
        self.error = None         # other error text
        self.out_path = None
        self.wall = 0.0
        self.coverage = {}        # action name -> (distinct, generated)
        self.rc = None

    def lines(self, tag):
        """JSON payloads of PrintT(<<"TAG", ToJson(..)>>) lines."""
        pre = '<<"%s", "' % tag
        with open(self.out_path, encoding="utf-8", errors="replace") as f:
            for ln in f:
                if ln.startswith(pre):
                    ln = ln.rstrip("\n")
                    inner = ln[len(pre) - 1: ln.rfind('">>') + 1]
                    yield json.loads(json.loads(inner))

    def tuples(self, tag):
        """raw text of PrintT(<<"TAG", ...>>) lines that are not JSON payloads."""
        pre = '<<"%s"' % tag
        with open(self.out_path, encoding="utf-8", errors="replace") as f:
            for ln in f:
                if ln.startswith(pre):
                    yield ln.rstrip("\n")

    def tail(self, n=40):
        with open(self.out_path, encoding="utf-8", errors="replace") as f:
            ls = f.readlines()
        return "".join(ls[-n:])


def tlc(module, cfg, wd, *, workers=4, timeout=900, env=None, simulate=None, depth=None, seed=None,
        coverage=False, xmx="6g", dfs=False, tag=None, expect_violation=False, extra=None):
    """Run TLC on /verif/spec/<module>.tla with /verif/spec/<cfg>. stdout goes to a file in wd."""
    tag = tag or cfg.replace(".cfg", "")
    out_path = os.path.join(wd, "tlc_%s.out" % tag)
    meta = os.path.join(wd, "meta_%s" % tag)
    shutil.rmtree(meta, ignore_errors=True)
    jopts = "-Xss1g -Dfile.encoding=UTF-8"
    if dfs:
        jopts += " -Dtlc2.tool.queue.IStateQueue=StateDeque"
    e = dict(os.environ)
    e["JAVA_TOOL_OPTIONS"] = jopts
    if env:
        e.update({k: str(v) for k, v in env.items()})
    cmd = ["timeout", str(timeout), "java", "-XX:+UseParallelGC", "-Xmx" + xmx, "-cp", JAR, "tlc2.TLC",
           "-workers", str(workers), "-metadir", meta, "-cleanup", "-noGenerateSpecTE",
           "-config", cfg]
    if coverage:
        cmd += ["-coverage", "1"]
    if simulate is not None:
        cmd += ["-simulate", "num=%d" % simulate]
        if depth:
            cmd += ["-depth", str(depth)]
    if seed is not None:
        cmd += ["-seed", str(seed)]
    if extra:
        cmd += extra
    cmd += [module + ".tla"]
    t0 = time.time()
    with open(out_path, "w") as fo:
        p = subprocess.run(cmd, cwd=SPEC, env=e, stdout=fo, stderr=subprocess.STDOUT)
    r = TlcResult()
    r.out_path = out_path
    r.wall = time.time() - t0
    r.rc = p.returncode
    shutil.rmtree(meta, ignore_errors=True)
    cov_re = re.compile(r"^<(\w+) line \d+, col \d+ to line \d+, col \d+ of module (\w+)>: (\d+):(\d+)")
    with open(out_path, encoding="utf-8", errors="replace") as f:
        for ln in f:
            if ln.startswith("<<"):
                continue
            m = re.match(r"^(\d+) states generated, (\d+) distinct states found", ln)
            if m:
                r.generated, r.distinct = int(m.group(1)), int(m.group(2))
            m = re.match(r"^The depth of the complete state graph search is (\d+)", ln)
            if m:
                r.depth = int(m.group(1))
            m = re.match(r"^Error: Invariant (\w+) is violated", ln)
            if m:
                r.violated = m.group(1)
            m = re.match(r"^Error: Action property (\w+) is violated", ln)
            if m:
                r.violated = m.group(1)
            if ln.startswith("Error: Temporal propert"):
                r.violated = "temporal"
            if ln.startswith("Error:") and r.violated is None and r.error is None:
                r.error = ln.strip()
            m = cov_re.match(ln)
            if m:
                r.coverage[m.group(1)] = (int(m.group(3)), int(m.group(4)))
    if p.returncode == 124:
        raise ToolError("TLC timeout (%ss) on %s/%s" % (timeout, module, cfg))
    r.ok = (p.returncode == 0 and r.violated is None and r.error is None)
    log("[tlc] %s/%s rc=%d gen=%d distinct=%d %.1fs%s" % (module, cfg, p.returncode, r.generated, r.distinct,
                                                     r.wall, "" if r.ok else " NOT-OK %s %s" % (r.violated, r.error)))
    if not r.ok and not expect_violation:
        log(r.tail())
        raise ToolError("TLC failed on %s/%s: %s %s" % (module, cfg, r.violated, r.error))
    return r


def trace_validate(module, cfg, wd, trace_path, *, timeout=900, env=None, tag=None, xmx="6g", boundary=None, chunk=150000):
    """Leg C: TLC consumes an ndjson trace recorded from the real code (IOEnv.TRACE).
    Trace specs never block on a mismatch; they print <<"VIOL", json>> / <<"DRIFT", json>> lines
    and a final <<"TRACE_DONE", n>>; anything else is a tool error."""
    # very long traces are validated in pieces (a piece starts at a boundary record, e.g. a reset): TLC's JSON reader
    # holds the whole file in memory
    if boundary is not None:
        with open(trace_path) as f:
            lines = f.readlines()
        if len(lines) > chunk:
            total, viol, drift, last, states, gen = 0, [], [], None, 0, 0
            start = 0
            while start < len(lines):
                end = min(len(lines), start + chunk)
                while end < len(lines) and not boundary(json.loads(lines[end])):
                    end += 1
                part = trace_path + ".part"
                with open(part, "w") as f:
                    f.writelines(lines[start:end])
                r, n, v, d = trace_validate(module, cfg, wd, part, timeout=timeout, env=env, tag=(tag or module) + "_%d" % start, xmx=xmx)
                if n != end - start:
                    raise ToolError("trace validation consumed %d of %d records of the piece at %d" % (n, end - start, start))
                total += n; viol += v; drift += d; last = r; states += r.distinct; gen += r.generated
                os.remove(part)
                start = end
            last.distinct, last.generated = states, gen
            return last, total, viol, drift
    e = {"TRACE": trace_path}
    if env:
        e.update(env)
    r = tlc(module, cfg, wd, workers=1, timeout=timeout, env=e, dfs=True, tag=tag, xmx=xmx)
    done = list(r.tuples("TRACE_DONE"))
    if not done:
        log(r.tail())
        raise ToolError("trace validation did not reach the end of %s" % trace_path)
    n = int(re.findall(r"\d+", done[-1])[-1])
    viol = list(r.lines("VIOL"))
    drift = list(r.lines("DRIFT"))
    return r, n, viol, drift


# --------------------------------------------------------------------------- findings / evidence
def load_known():
    p = os.path.join(ROOT, "known_findings.json")
    if not os.path.exists(p):
        return []
    with open(p) as f:
        return json.load(f)["findings"]


class Check:
    """Accumulates what a check run covered and what it found."""

    def __init__(self, pid, tier, seed):
        self.pid, self.tier, self.seed = pid, tier, seed
        self.t0 = time.time()
        self.wd = workdir(pid)
        self.states = 0
        self.transitions = 0
        self.traces = 0           # traces / cases validated against the implementation
        self.evaluations = 0
        self.distinct = 0
        self.samples = []
        self.violations = []      # dicts: sig, what, case
        self.drift = []
        self.notes = {}
        self.assumptions = []
        self.cmds = []
        self.exhaustive = False
        self.rule = ""
        self.actions = {}
        self.known = [k for k in load_known() if k["property"] == pid]

    def add_tlc(self, r, label=None):
        self.states += r.distinct
        self.transitions += r.generated
        for k, v in r.coverage.items():
            a = self.actions.get(k, [0, 0])
            self.actions[k] = [a[0] + v[0], a[1] + v[1]]
        if label:
            self.notes.setdefault("tlc_runs", []).append(
                {"run": label, "distinct_states": r.distinct, "states_generated": r.generated,
                 "depth": r.depth, "wall_s": round(r.wall, 1)})

    def sample(self, x, limit=6):
        if len(self.samples) < limit:
            self.samples.append(x)

    def violation(self, sig, what, case):
        self.violations.append({"sig": sig, "what": what, "case": case})

    def finish(self):
        """apply known findings, write evidence, print verdict lines, return the exit code."""
        os.makedirs(EVID, exist_ok=True)
        known_seen, unknown = {}, []
        for v in self.violations:
            hit = None
            for k in self.known:
                if k.get("status") != "known":
                    continue
                if re.fullmatch(k["sig"], v["sig"]):
                    hit = k
                    break
            if hit:
                e = known_seen.setdefault(hit["id"], {"entry": hit, "n": 0, "example": v["what"]})
                e["n"] += 1
            else:
                unknown.append(v)
        for kid, e in sorted(known_seen.items()):
            print("KNOWN-FINDING: property=%s %s [%s; %d case(s) this run, e.g. %s]" % (
                self.pid, e["entry"]["what"], kid, e["n"], e["example"][:160]))
        rc = 0
        if unknown:
            rc = 1
            d = os.path.join(REPLAYS, self.pid)
            os.makedirs(d, exist_ok=True)
            seen = set()
            for v in unknown:
                if v["sig"] in seen and len(seen) > 0:
                    continue
                seen.add(v["sig"])
                h = hashlib.sha1(json.dumps(v, sort_keys=True, default=str).encode()).hexdigest()[:10]
                path = os.path.join(d, "%s.json" % h)
                with open(path, "w") as f:
                    json.dump({"property": self.pid, "sig": v["sig"], "what": v["what"], "case": v["case"]}, f,
                              indent=1, default=str)
                print("VIOLATION property=%s replay=%s" % (self.pid, path))
                print("  sig=%s : %s" % (v["sig"], v["what"][:400]))
                if len(seen) >= 8:
                    break
        cov = {
            "states": self.states, "transitions": self.transitions,
            "traces_validated_against_impl": self.traces,
            "samples": self.samples if self.samples else ["(no sample recorded)"],
            "evaluations": self.evaluations, "distinct_nontrivial": self.distinct,
            "rule": self.rule, "exhaustive": self.exhaustive,
            "checker_cmd": "; ".join(self.cmds),
            "spec_action_coverage": self.actions,
            "drift": self.drift[:10], "drift_count": len(self.drift),
            "known_findings_seen": {k: v["n"] for k, v in known_seen.items()},
            "unlisted_violations": len(unknown),
        }
        cov.update(self.notes)
        ev = {"property_id": self.pid, "tier": self.tier, "seed": self.seed, "level": "model_checking",
              "coverage": cov, "assumptions": self.assumptions,
              "wall_s": round(time.time() - self.t0, 1), "violations": len(unknown)}
        with open(os.path.join(EVID, "%s.json" % self.pid), "w") as f:
            json.dump(ev, f, indent=1, default=str)
        log("[%s] %s: states=%d transitions=%d impl-validated=%d violations=%d known=%d drift=%d wall=%.0fs" % (
            self.pid, self.tier, self.states, self.transitions, self.traces, len(unknown),
            sum(v["n"] for v in known_seen.values()), len(self.drift), time.time() - self.t0))
        return rc


def write_ndjson(path, recs):
    with open(path, "w") as f:
        for r in recs:
            f.write(json.dumps(r, ensure_ascii=False) + "\n")


def read_ndjson(path):
    with open(path, encoding="utf-8") as f:
        return [json.loads(l) for l in f if l.strip()]


def cps(s):
    return [ord(c) for c in s]


def uncps(a):
    return "".join(chr(c) for c in a)


def generic_replay(case):
    """A replay file holds the violating case as the harness reported it; print it so that it can be
    re-run by hand (each check's module may define a sharper replay())."""
    print(json.dumps(case, indent=1, ensure_ascii=False)[:6000])
    return 0


def trace_accept(module, cfg, wd, trace_path, *, timeout=900, tag=None, env=None):
    """Leg C for trace specs with silent steps (acceptance = highest record reached, TLCSet register).
    Returns (TlcResult, reached, total)."""
    e = {"TRACE": trace_path}
    if env:
        e.update(env)
    r = tlc(module, cfg, wd, workers=1, timeout=timeout, env=e, dfs=True, tag=tag)
    t = list(r.tuples("TRACE_REACHED"))
    if not t:
        log(r.tail())
        raise ToolError("trace spec %s printed no TRACE_REACHED" % module)
    reached = int(re.findall(r"-?\d+", t[-1])[-1])
    total = sum(1 for _ in open(trace_path))
    return r, reached, total


def validate_runs(module, cfg, wd, trace_path, start_ev, *, timeout=900, max_rejections=5, start_key="ev"):
    """Validate a concatenation of runs (each beginning with a record whose ev = start_ev).  On a
    rejection the offending run is reported and validation resumes after it, so that the rest of
    the trace is still examined.  Returns (last TlcResult, runs_total, rejections[list of dict])."""
    recs = read_ndjson(trace_path)
    rejections = []
    offset = 0
    last = None
    states = trans = 0
    while True:
        part = recs[offset:]
        if not part:
            break
        p = trace_path + ".part"
        write_ndjson(p, part)
        r, reached, total = trace_accept(module, cfg, wd, p, timeout=timeout, tag="%s_%d" % (module, len(rejections)))
        last = r
        states += r.distinct
        trans += r.generated
        if reached >= total:
            break
        # record index (0-based in part) of the first unexplained record = reached
        bad = offset + reached
        start = max(i for i in range(bad + 1) if recs[i].get(start_key) == start_ev)
        nxt = next((i for i in range(bad + 1, len(recs)) if recs[i].get(start_key) == start_ev), len(recs))
        rejections.append({"first_unexplained_record": recs[bad], "index": bad, "run": recs[start:nxt][:60]})
        offset = nxt
        if len(rejections) >= max_rejections:
            break
    os.remove(trace_path + ".part") if os.path.exists(trace_path + ".part") else None
    if last is not None:
        last.distinct, last.generated = states, trans
    nruns = sum(1 for x in recs if x.get(start_key) == start_ev)
    return last, nruns, rejections
