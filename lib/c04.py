"""C04 - if / elseif / else / while / for-in behave as properly nested structured blocks."""
import os, vlib


def replay(ck, cfg, label, workers=10):
    a = vlib.tlc("C04_MC", cfg, ck.wd, workers=workers, timeout=5000, xmx="16g")
    ck.add_tlc(a, label)
    s = vlib.vh_json(["c04-replay", a.out_path], timeout=5000)
    ck.traces += s["executed"]; ck.evaluations += s["programs"]; ck.distinct += s["executed"]
    for b in s["bad"]:
        canon = [t for t in b["tokens"] if t.endswith("!")]
        ck.violation("flow:%s%s" % (b["why"].split(" ")[0], ":canonical-" + "+".join(sorted(set(canon))) if canon else ""),
                     "%r: %s" % (b["script"], b["why"][:300]), b)
    for x in s["samples"]:
        ck.sample(x)
    os.remove(a.out_path)
    return s


def run(ck):
    q = ck.tier == "quick"
    vlib.clean(ck.wd)
    ck.rule = ("leg A: every well-nested program the builder can produce (one line per step) over if/elseif/else, while, for-in, emit, dec: "
               "the goto machine (I: find_commands block scan, per-construct call stacks, meta caches, generic-end table) refines the tree-walking "
               "interpreter (R); quick: <=6 lines with alias+canonical+generic-end spellings and <=4 lines with every spelling and condition form; "
               "thorough: <=5 lines every spelling/condition form, <=7 lines model only; leg B: every emitted program with a terminating reference run "
               "on the real SDK (emit trace with argument values, final counter and loop variable); leg C: random programs up to ~120 lines / depth 6 "
               "validated by TLC against Flow!Ref. distinct_nontrivial = distinct programs executed on the real SDK")
    if q:
        s1 = replay(ck, "C04_A6.cfg", "A/B: <=6 lines, min spellings")
        s2 = replay(ck, "C04_A4all.cfg", "A/B: <=4 lines, all spellings + condition forms")
        ck.notes["legB"] = [{"cfg": "C04_A6", **{k: s1[k] for k in ("programs", "executed", "skipped_reference_out_of_fuel")}},
                            {"cfg": "C04_A4all", **{k: s2[k] for k in ("programs", "executed", "skipped_reference_out_of_fuel")}}]
    else:
        s1 = replay(ck, "C04_A5all.cfg", "A/B: <=5 lines, all spellings + condition forms", workers=12)
        s2 = replay(ck, "C04_A6.cfg", "A/B: <=6 lines, min spellings")
        a = vlib.tlc("C04_MC", "C04_A7.cfg", ck.wd, workers=12, timeout=6000, xmx="24g")
        ck.add_tlc(a, "A: <=7 lines, min spellings (model only)")
        ck.notes["legB"] = [{"cfg": "C04_A5all", **{k: s1[k] for k in ("programs", "executed", "skipped_reference_out_of_fuel")}},
                            {"cfg": "C04_A6", **{k: s2[k] for k in ("programs", "executed", "skipped_reference_out_of_fuel")}}]
    ck.cmds.append("tlc C04_A*.cfg C04_MC.tla; vh c04-replay; vh c04-record; tlc C04_Trace.tla")
    n = 400 if q else 6000
    tr = os.path.join(ck.wd, "c04_trace.ndjson")
    s = vlib.vh_json(["c04-record", ck.seed, n, 60, tr], timeout=3400)
    r, k, viol, drift = vlib.trace_validate("C04_Trace", "C04_Trace.cfg", ck.wd, tr, timeout=5000)
    if k != n:
        raise vlib.ToolError("trace validation consumed %d of %d" % (k, n))
    h = list(r.lines("HARNESS"))
    if h:
        raise vlib.ToolError("harness program generator out of the model's domain: %s" % h[:2])
    ck.add_tlc(r, "C: %d random programs, %d lines" % (n, s["lines"]))
    ck.traces += n; ck.evaluations += s["lines"]; ck.distinct += n
    for v in viol:
        ck.violation("flow:large:%s" % ("run-failed" if not v["ok"] else "trace"), "program of %d lines: ok=%s %s; emit trace %s expected %s" % (
            len(v["prog"]), v["ok"], v["why"][:100], v["trace"][:8], v["exptrace"][:8]), v)
    ck.notes["legC"] = {"programs": n, "lines": s["lines"], "emits": s["emits"], "longest_program": s["longest_program"], "seed": ck.seed}
    ck.assumptions += ["conditions are values, a boolean expression, a command call and a negated command call over one counter",
                       "programs whose reference run exceeds its fuel (non-terminating while) are not executed"]
