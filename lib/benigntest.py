#!/usr/bin/env python3
"""lib/benigntest.py [k ...] - behaviour-preserving changes must raise no alarm: for every benign/<k>.diff apply it to /repo, run the
quick checks of the properties whose code it touches, undo it; every run must exit 0.  Writes benign/RESULTS.json."""
import json, os, subprocess, sys, time
ROOT = os.path.dirname(os.path.dirname(os.path.abspath(__file__)))
PLAN = {"1": ["C01", "C08", "C14", "C02", "C03", "C20"], "2": ["C02", "C03", "C13", "C04", "C05", "C10", "C19"],
        "3": ["C12", "C18", "C16", "C10", "C19", "C07", "C11", "C17"], "4": ["C03", "C13", "C20", "C14", "C08", "C10", "C01", "C07"],
        "5": ["C03", "C15", "C13", "C04"], "6": ["C06", "C09", "C04", "C05"], "7": ["C12", "C19", "C07", "C11", "C17", "C09"], "8": ["C20"]}
ks = sys.argv[1:] or sorted(PLAN)
if subprocess.run(["git", "-C", "/repo", "status", "--porcelain"], capture_output=True, text=True).stdout.strip():
    print("refusing: /repo has local modifications"); sys.exit(2)
res = {}
for k in ks:
    r = subprocess.run(["git", "-C", "/repo", "apply", os.path.join(ROOT, "benign", k + ".diff")], capture_output=True, text=True)
    if r.returncode:
        res[k] = {"note": "does not apply: " + r.stderr[:200]}; print(k, res[k]); continue
    res[k] = {}
    try:
        for pid in PLAN[k]:
            t0 = time.time()
            p = subprocess.run(["./check", pid, "--tier", "quick"], cwd=ROOT, capture_output=True, text=True, timeout=3600)
            sigs = [l.strip()[:200] for l in p.stdout.splitlines() if l.startswith("  sig=")]
            res[k][pid] = {"rc": p.returncode, "wall_s": round(time.time() - t0), "signatures": sigs[:4], "stderr": p.stderr[-300:] if p.returncode == 2 else ""}
            print(k, pid, "rc=%d" % p.returncode, sigs[:2], flush=True)
    finally:
        subprocess.run(["git", "-C", "/repo", "checkout", "--", "."])
        subprocess.run(["git", "-C", "/repo", "clean", "-fdq", "--", "duckscript", "duckscript_sdk", "duckscript_cli"])
json.dump(res, open(os.path.join(ROOT, "benign", "RESULTS.json"), "w"), indent=1)
alarms = [(k, p) for k, v in res.items() for p, x in v.items() if isinstance(x, dict) and x.get("rc") != 0]
print("alarms:", alarms)
subprocess.run(["git", "-C", ROOT, "checkout", "evidence"])
sys.exit(0 if not alarms else 1)
