"""C03 - the runner executes exactly what the command results dictate."""
import os, vlib


def replay_runs(ck, cfg, label, workers=8):
    a = vlib.tlc("C03_MC", cfg, ck.wd, workers=workers, timeout=3400, xmx="16g")
    ck.add_tlc(a, label)
    s = vlib.vh_json(["c03-replay", a.out_path, ck.wd], timeout=3400)
    ck.traces += s["runs"]; ck.evaluations += s["runs"]; ck.distinct += s["runs"]
    for b in s["bad"]:
        kinds = sorted({w.split(" ")[0] for w in b["why"]})
        ck.violation("runner:%s%s" % ("+".join(kinds), ":halt" if b["haltAt"] else ""),
                     "script %r on_error=%s halt_at=%s: %s" % (b["text"], b["onerr"], b["haltAt"], "; ".join(b["why"])[:600]), b)
    for x in s["samples"]:
        ck.sample(x)
    os.remove(a.out_path)
    return s


def run(ck):
    q = ck.tier == "quick"
    vlib.clean(ck.wd)
    ck.rule = ("leg A: Runner (abstract machine: poll, fetch, per-result transitions, on_error dispatch, label table) over every program of "
               "up to 2 (quick) / 3 (thorough) lines x {3 labels, 3 outputs, 15 scripted results, unknown command, no command} x 4 on_error "
               "configurations x text/file source; leg B: every terminated behaviour replayed through run_script / run_script_file with "
               "scripted commands (invocation sequence with bound arguments, final variables, outcome, error line/source); leg C: random "
               "programs up to 40 lines with multi-result scripts executed by the real runner, each run validated step by step by "
               "C03_Trace (silent steps for command-less lines). distinct_nontrivial = distinct (program, configuration) runs; leg D: the repository's own test scripts run on the real SDK behind a logging proxy (every command, including functions defined at run time); each runner-loop instance is validated event by event by RunLoop_Trace: line progression (silent command-less lines, goto label/line, last label definition), the variables each command saw = previous body effect + store rule, on_error dispatch arguments, nothing after the end")
    s = replay_runs(ck, "C03_A2.cfg", "A/B: all programs of <=2 lines (rich alphabet)")
    ck.notes["legB"] = {"runs": s["runs"]}
    if not q:
        s = replay_runs(ck, "C03_A3.cfg", "A/B: all programs of <=3 lines (reduced alphabet)", workers=12)
        ck.notes["legB_3lines"] = {"runs": s["runs"]}
    ck.cmds.append("tlc -config C03_A2.cfg C03_MC.tla; vh c03-replay; vh c03-record; tlc C03_Trace.tla")
    nprog = 3000 if q else 40000
    tr = os.path.join(ck.wd, "c03_trace.ndjson")
    s = vlib.vh_json(["c03-record", ck.seed, nprog, 40, tr, ck.wd], timeout=3000)
    for b in s["bad"]:
        ck.violation("runner:panic", b["text"], b)
    r, nruns, rej = vlib.validate_runs("C03_Trace", "C03_Trace.cfg", ck.wd, tr, "prog", timeout=3000)
    ck.add_tlc(r, "C: trace validation of %d runs / %d records" % (nruns, s["records"]))
    ck.traces += nruns; ck.evaluations += s["records"]; ck.distinct += nruns
    for x in rej:
        ck.violation("runner:trace:%s" % x["first_unexplained_record"].get("ev"),
                     "real run not explained by Runner at record %s" % str(x["first_unexplained_record"])[:300], x)
    ck.notes["legC"] = {"programs": nruns, "records": s["records"], "rejections": len(rej), "seed": ck.seed}
    import runloop
    runloop.leg(ck, "C03")
    ck.assumptions += ["commands are scripted harness commands; error message texts are compared only when supplied by the test",
                       "every command line carries ${x} ${y} so each invocation observes the variable store through binding"]
