"""C05 - functions: arguments, return values, early return and scoped isolation."""
import os, vlib


def replay(ck, cfg, label, workers=10):
    a = vlib.tlc("C05_MC", cfg, ck.wd, workers=workers, timeout=5000, xmx="16g")
    ck.add_tlc(a, label)
    s = vlib.vh_json(["c05-replay", a.out_path], timeout=5000)
    ck.traces += s["executed"]; ck.evaluations += s["programs"]; ck.distinct += s["executed"]
    for b in s["bad"]:
        ck.violation("func:%s%s%s" % (b["why"].split(" ")[0], ":for+return" if b["for_and_return"] else "", ":scoped" if b["scoped"] else ""),
                     "%r: %s" % (b["script"], b["why"][:300]), b)
    for x in s["samples"]:
        ck.sample(x)
    os.remove(a.out_path)
    return {"cfg": cfg, "programs": s["programs"], "executed": s["executed"], "skipped": s["skipped_fuel_or_open_corner"]}


def run(ck):
    q = ck.tier == "quick"
    vlib.clean(ck.wd)
    ck.rule = ("leg A: every program the builder produces around one function f (scoped or not; body with for-in, if/else, return with/without "
               "value, guarded or unguarded recursion; main with calls as statements with/without output variable and argument, for, if): the goto "
               "machine (I: fn registration, function call stack with saved scope, return / end function, depth-tagged for-in frames, if stack) "
               "refines the tree-walking reference (R: every call starts afresh; scoped isolation); quick <=7 lines, thorough <=8 emitted and <=9 "
               "model only; calls in condition position are explored at R-level and replayed; leg B: every emitted program with a terminating "
               "reference on the real SDK (emit trace incl. ${1} inside the body, final c/i/r); leg C: random larger programs (many calls after "
               "early returns, guarded recursion, condition calls) validated by TLC. distinct_nontrivial = distinct programs executed")
    legb = []
    if q:
        legb.append(replay(ck, "C05_A7.cfg", "A/B: <=7 lines, scoped and unscoped"))
        legb.append(replay(ck, "C05_B7cond.cfg", "B: <=7 lines with calls in condition position (reference only)"))
    else:
        legb.append(replay(ck, "C05_A8.cfg", "A/B: <=8 lines, unscoped", workers=12))
        legb.append(replay(ck, "C05_A7.cfg", "A/B: <=7 lines, scoped and unscoped"))
        legb.append(replay(ck, "C05_B7cond.cfg", "B: <=7 lines with calls in condition position (reference only)"))
        a = vlib.tlc("C05_MC", "C05_A9.cfg", ck.wd, workers=12, timeout=6000, xmx="24g")
        ck.add_tlc(a, "A: <=9 lines, unscoped (model only)")
    ck.notes["legB"] = legb
    ck.cmds.append("tlc C05_A*.cfg C05_MC.tla; vh c05-replay; vh c05-record; tlc C05_Trace.tla")
    n = 572 if q else 9144        # every eighth program is a probe (return out of nested loops); 500 / 8000 random ones as before
    tr = os.path.join(ck.wd, "c05_trace.ndjson")
    s = vlib.vh_json(["c05-record", ck.seed, n, tr], timeout=3400)
    r, k, viol, drift = vlib.trace_validate("C05_Trace", "C05_Trace.cfg", ck.wd, tr, timeout=5000)
    if k != n:
        raise vlib.ToolError("trace validation consumed %d of %d" % (k, n))
    h = list(r.lines("HARNESS"))
    if h:
        raise vlib.ToolError("harness program generator out of the model's domain: %s" % h[:2])
    skipped = len(list(r.lines("SKIP")))
    ck.add_tlc(r, "C: %d random programs, %d lines" % (n, s["lines"]))
    ck.traces += n - skipped; ck.evaluations += s["lines"]; ck.distinct += n - skipped
    for v in viol:
        kinds = [l["cmd"] for l in v["prog"]]
        ck.violation("func:large:%s%s" % ("run-failed" if not v["ok"] else "trace", ":for+return" if "for" in kinds and "ret" in kinds else ""),
                     "program of %d lines: ok=%s %s; trace %s expected %s; final %s expected %s" % (
                         len(v["prog"]), v["ok"], v["why"][:100], v["trace"][:6], v["exptrace"][:6], v["final"], v["expfinal"]), v)
    ck.notes["legC"] = {"programs": n, "skipped_open_corner_or_fuel": skipped, "lines": s["lines"], "emits": s["emits"], "longest_program": s["longest_program"], "seed": ck.seed}
    ck.assumptions += ["don't-cares of the property: a <scope> call ending without a value whose output variable already held one; outputs of value-less calls inside a condition-position call",
                       "the callee never reads its pending output variable (the runner clears it when the call starts); in-body calls have no output variable",
                       "${1} is observed inside the body only (non-scoped calls leave it in the global map)"]
