#!/usr/bin/env python3
"""Runs /repo's own test suite (nextest, as in /root/.vp/BASELINE.json) and reports which of the 1001
stable-pass tests did not pass.  Used after every hook / fix: commit (guard off = default features)."""
import json, subprocess, sys, os, re, xml.etree.ElementTree as ET
b = json.load(open('/root/.vp/BASELINE.json'))
stable = set(b['stable_pass'])
env = dict(os.environ, CARGO_NET_OFFLINE='true')
junit = '/repo/target/nextest/pb/junit.xml'
if os.path.exists(junit):
    os.remove(junit)
p = subprocess.run('cd /repo && cargo nextest run --workspace --no-fail-fast --tool-config-file pb:/w/lib/nextest.toml --profile pb --test-threads 8 --offline',
                   shell=True, env=env, stdout=subprocess.PIPE, stderr=subprocess.STDOUT, text=True)
passed = set()
if os.path.exists(junit):
    for tc in ET.parse(junit).getroot().iter('testcase'):
        ok = not any(c.tag in ('failure', 'error', 'skipped') for c in tc)
        name = tc.get('classname', '') + '::' + tc.get('name', '')
        if ok:
            passed.add(name)
else:
    print(p.stdout[-3000:]); sys.exit(2)
missing = sorted(stable - passed)
print("stable=%d passed_now=%d stable_not_passing=%d" % (len(stable), len(passed), len(missing)))
for m in missing[:40]:
    print("  NOT PASSING:", m)
sys.exit(1 if missing else 0)
