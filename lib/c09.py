"""C09 - wrapping a command in if / elseif / while / not / an alias does not change its arguments."""
import os, vlib


def run(ck):
    q = ck.tier == "quick"
    wd = ck.wd
    vlib.clean(wd)
    ck.rule = ("leg A: every argument value over 13 character classes up to length VL, alone and next to a second argument (9 lists per "
               "value): EvalWrap!Wrapped (re-serialise o parse o bind) is the identity or the value is in a class of the recorded finding; "
               "leg B: each list through the real direct call, if, elseif, while, not and a user alias with a capture command, plus the "
               "predicates equals/contains/starts_with/is_empty/a user function wrapped vs direct; leg C: random Unicode values, validated by TLC. "
               "distinct_nontrivial = distinct (argument list, wrapper) pairs with a non-empty value")
    a = vlib.tlc("C09_MC", "C09_A3.cfg" if q else "C09_A4.cfg", wd, workers=8, timeout=3000)
    ck.add_tlc(a, "A: values up to length %d" % (3 if q else 4))
    ck.cmds.append("tlc -config C09_A*.cfg C09_MC.tla; vh c09-replay; vh c09-predicates; vh c09-record; tlc C09_Trace.tla")
    s = vlib.vh_json(["c09-replay", a.out_path], timeout=3000)
    if s.get("direct_broken"):
        raise vlib.ToolError("the direct call itself does not receive the values (that is C02's subject): %s" % s["bad"][:2])
    ck.traces += s["runs"]; ck.evaluations += s["runs"]; ck.distinct += s["runs"]
    for b in s["bad"]:
        cls = "+".join(sorted(b["cls"]))
        sig = ("wrapper-alters:" + cls) if (b["same_as_model"] and cls) else ("wrapper-mismatch:%s:%s" % (b["wrapper"], cls or "unclassified"))
        ck.violation(sig, "%s: values %r received %r" % (b["wrapper"], b["values"], b["received"]), b)
    for x in s["samples"]:
        ck.sample(x)
    ck.notes["legB_capture"] = {"argument_lists": s["cases"], "runs": s["runs"], "altered": s["mismatches"]}
    s = vlib.vh_json(["c09-predicates", a.out_path], timeout=3000)
    ck.traces += s["runs"]; ck.evaluations += s["runs"]; ck.distinct += s["runs"]
    for b in s["bad"]:
        cls = "+".join(sorted(b["cls"]))
        if b["pred"] == "alias-of-function":
            sig = "alias-of-function"
        else:
            sig = ("wrapper-predicate:" + cls) if cls else "wrapper-predicate-unclassified:" + b["pred"]
        ck.violation(sig, "%s %r: %s" % (b["pred"], b["values"], b["why"]), b)
    ck.notes["legB_predicates"] = {"values": s["cases"], "runs": s["runs"], "disagreeing": s["mismatches"]}
    os.remove(a.out_path)
    n = 8000 if q else 100000
    tr = os.path.join(wd, "c09_trace.ndjson")
    s = vlib.vh_json(["c09-record", ck.seed, n, tr], timeout=3000)
    for b in s["bad"]:
        ck.violation("wrapper-panic", str(b), b)
    r, m, viol, drift = vlib.trace_validate("C09_Trace", "Trace.cfg", wd, tr, timeout=3000)
    if m != n:
        raise vlib.ToolError("trace validation consumed %d of %d" % (m, n))
    ck.add_tlc(r, "C: trace validation of %d wrapped invocations" % n)
    ck.traces += n; ck.evaluations += n; ck.distinct += n
    for v in viol:
        cls = "+".join(sorted(v["cls"]))
        sig = ("wrapper-alters:" + cls) if (v["same"] and cls) else ("wrapper-mismatch:%s:%s" % (v["wrapper"], cls or "unclassified"))
        ck.violation(sig, "%s: values %r received %r (invoked once: %s)" % (v["wrapper"], [vlib.uncps(x) for x in v["args"]], [vlib.uncps(x) for x in v["received"]], v["invoked"]), v)
    ck.drift += [{"wrapper": d["wrapper"], "args": [vlib.uncps(x) for x in d["args"]]} for d in drift[:10]]
    ck.notes["legC"] = {"invocations": n, "altered": len(viol), "seed": ck.seed}
    ck.assumptions += ["the capture command returns 'false' so that while terminates; each wrapper is run in its own script on a fresh context"]
