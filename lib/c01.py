"""C01 - a line written with the documented syntax parses back to the same instruction."""
import os, vlib


def run(ck):
    q = ck.tier == "quick"
    wd = ck.wd
    vlib.clean(wd)
    ck.rule = ("leg A: every instruction over 16 character classes (shapes label/out/cmd x arguments grown by Next steps) x every "
               "rendering choice of Syntax!Render must parse back (Parser = transcription of parser.rs); leg B: the emitted "
               "(instruction, rendering) pairs replayed into parse_text; leg C: random Unicode instructions rendered by the "
               "harness mirror of Render, parsed by parse_text, validated by TLC. distinct_nontrivial = distinct instructions "
               "with >=1 argument (A/B) + distinct recorded scripts (C)")
    # leg A + emission
    a1 = vlib.tlc("C01_MC", "C01_A1.cfg", wd, workers=8, timeout=900, xmx="12g")
    ck.add_tlc(a1, "A1: 1 argument of length<=2, wide choice set, emitted")
    ck.cmds.append("tlc -config C01_A1.cfg C01_MC.tla")
    a2cfg = "C01_A2.cfg" if q else "C01_A3.cfg"
    a2 = vlib.tlc("C01_MC", a2cfg, wd, workers=10, timeout=3000)
    ck.add_tlc(a2, "A2: %s" % a2cfg)
    ck.cmds.append("tlc -config %s C01_MC.tla" % a2cfg)
    # leg B
    s = vlib.vh_json(["c01-replay", a1.out_path])
    ck.traces += s["renderings"]
    ck.evaluations += s["renderings"]
    ck.distinct += s["cases"]
    for b in s["bad"]:
        ck.violation("roundtrip:B", "rendering %r parsed to %s, expected %s" % (b["line"], b["got"], b["expected"]), b)
    for x in s["samples"]:
        ck.sample(x)
    ck.notes["legB"] = {"instructions": s["cases"], "renderings_replayed": s["renderings"]}
    if not q:
        b2 = vlib.tlc("C01_MC", "C01_B2.cfg", wd, workers=8, timeout=1800)
        ck.add_tlc(b2, "B2: 2 arguments of length<=1, emitted")
        s2 = vlib.vh_json(["c01-replay", b2.out_path])
        ck.traces += s2["renderings"]; ck.evaluations += s2["renderings"]; ck.distinct += s2["cases"]
        for b in s2["bad"]:
            ck.violation("roundtrip:B", "rendering %r parsed to %s, expected %s" % (b["line"], b["got"], b["expected"]), b)
        os.remove(b2.out_path)
    # leg C
    nscripts, maxlines = (800, 8) if q else (8000, 40)
    tr = os.path.join(wd, "c01_trace.ndjson")
    s = vlib.vh_json(["c01-record", ck.seed, nscripts, maxlines, tr])
    r, n, viol, drift = vlib.trace_validate("C01_Trace", "Trace.cfg", wd, tr, timeout=3000)
    if n != s["scripts"]:
        raise vlib.ToolError("trace validation consumed %d of %d records" % (n, s["scripts"]))
    if list(r.lines("HARNESS")):
        raise vlib.ToolError("harness renderer diverges from Syntax!Render: %s" % list(r.lines("HARNESS"))[:2])
    ck.add_tlc(r, "C: trace validation of %d scripts / %d lines" % (s["scripts"], s["lines"]))
    ck.traces += s["scripts"]; ck.evaluations += s["lines"]; ck.distinct += s["scripts"]
    for v in viol:
        ck.violation("roundtrip:C", "script %r parsed to %s" % (vlib.uncps(v["text"])[:200], str(v["got"])[:300]), v)
    ck.drift += [{"text": vlib.uncps(d["text"])[:200]} for d in drift]
    ck.notes["legC"] = {"scripts": s["scripts"], "lines": s["lines"], "seed": ck.seed}
    os.remove(a1.out_path)
    ck.assumptions += ["Syntax.tla is the reading of 'the documented syntax' (README 'Full Syntax'): space separation, optional quotes, escapes \\\\ \\\" \\n \\r \\t, trailing # comment",
                       "names (label/output/command) drawn from the class without white space, quote, backslash, #, = and not starting with : or !"]
