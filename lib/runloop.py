"""Growth leg shared by C02 / C03 / C19: the interpreter loops validated on real workloads.
record (vh run-record over /repo/test/**/*.ds on the real SDK behind a logging proxy) -> regroup the log per loop
instance by the logged loop id (pure reordering, nothing inferred) -> TLC validates it against spec/RunLoop_Trace.tla.
Returns {"C02": [...], "C03": [...], "C19": [...]} violations plus counters."""
import json, os, collections
import vlib


def regroup(src, dst):
    """[file][loop|call by seq] -> per file: for each loop id, the loop record then its own call events (seq order)."""
    n = 0
    with open(dst, "w") as out:
        cur = None
        loops = collections.OrderedDict()

        def flush():
            nonlocal n
            if cur is None:
                return
            out.write(json.dumps(cur) + "\n"); n += 1
            for lid, (head, calls) in loops.items():
                out.write(json.dumps(head) + "\n"); n += 1
                for c in calls:
                    out.write(json.dumps(c) + "\n"); n += 1
        for line in open(src):
            r = json.loads(line)
            if r["ev"] == "file":
                flush(); cur = r; loops = collections.OrderedDict()
            elif r["ev"] == "loop":
                loops[r["id"]] = (r, [])
            else:
                loops[r["loop"]][1].append(r)
        flush()
    return n


def run(ck, roots=None):
    wd = ck.wd
    raw = os.path.join(wd, "runloop_raw.ndjson")
    tr = os.path.join(wd, "runloop.ndjson")
    s = vlib.vh_json(["run-record", raw] + (roots or []), timeout=1200)
    bad_files = s["bad"]
    n = regroup(raw, tr)
    os.remove(raw)
    r = vlib.tlc("RunLoop_Trace", "Trace.cfg", wd, workers=1, timeout=3000, env={"TRACE": tr}, dfs=True, xmx="8g")
    done = list(r.tuples("TRACE_DONE"))
    if not done:
        vlib.log(r.tail())
        raise vlib.ToolError("RunLoop_Trace did not reach the end of the trace")
    import re
    m = int(re.findall(r"\d+", done[-1])[-1])
    if m != n:
        raise vlib.ToolError("RunLoop_Trace consumed %d of %d records" % (m, n))
    res = {"tlc": r, "records": n, "files": s["files"], "skipped": s["skipped"], "bad_files": bad_files,
           "C02": list(r.lines("VIOL-C02")), "C03": list(r.lines("VIOL-C03")), "C19": list(r.lines("VIOL-C19")), "drift": list(r.lines("DRIFT"))}
    ev = collections.Counter(t.split(",")[-1].strip(' ">') for t in r.tuples("EVENT"))
    lp = collections.Counter(t.split(",")[-1].strip(' ">') for t in r.tuples("LOOP"))
    bd = collections.Counter(t.split(",")[-1].strip(' ">') for t in r.tuples("BIND"))
    res["events"] = dict(ev); res["loops"] = dict(lp); res["bind"] = dict(bd)
    os.remove(tr)
    return res


def leg(ck, pid, sig_c02=None):
    """Run the shared leg D for property pid and fold its results into the check."""
    res = run(ck)
    r = res["tlc"]
    ev, lp, bd = res["events"], res["loops"], res["bind"]
    n_ev = sum(ev.values())
    ck.add_tlc(r, "D: interpreter loops on the repository's test scripts: %d files, %d loop instances, %d events" % (res["files"], sum(lp.values()), n_ev))
    for b in res["bad_files"]:
        ck.violation("runloop:%s" % b["why"].split(" ")[0], "test_file %s: %s" % (b["file"], b["why"]), b)
    if pid == "C02":
        ck.traces += bd.get("checked", 0); ck.evaluations += bd.get("checked", 0) + bd.get("outside", 0); ck.distinct += bd.get("checked", 0)
        for v in res["C02"]:
            x = v["x"]
            vals = [vlib.uncps(s) for s in x["spreadvals"]]
            spread = any(vlib.uncps(w).startswith("%{") for w in x["written"])
            ck.violation(sig_c02(spread, x["same_as_model"], vals),
                         "%s line %d of %s: written %r received %r expected %r" % (v["cmd"], v["line"], v["file"], [vlib.uncps(w) for w in x["written"]],
                                                                                  [vlib.uncps(w) for w in x["got"]], [vlib.uncps(w) for w in x["exp"]]), v)
        ck.drift += [{"runloop": d["why"], "cmd": d["cmd"], "file": d["file"], "line": d["line"]} for d in res["drift"][:10]]
    elif pid == "C03":
        k = ev.get("runner", 0) + ev.get("on_error", 0)
        ck.traces += lp.get("runner", 0); ck.evaluations += k; ck.distinct += k
        for v in res["C03"]:
            ck.violation("runloop:" + v["why"].replace(" ", "-")[:60], "%s loop, %s at line %d of %s: %s %s" % (v["kind"], v["cmd"], v["line"], v["file"], v["why"], str(v["x"])[:200]), v)
    elif pid == "C19":
        k = ev.get("alias", 0)
        ck.traces += lp.get("alias", 0); ck.evaluations += k; ck.distinct += k
        for v in res["C19"]:
            ck.violation("runloop:scriptcmd:variables", "%s at line %d of %s changed %s" % (v["cmd"], v["line"], v["file"], [vlib.uncps(c) for c in v["x"]["changed"]][:6]), v)
        for v in res["C03"]:
            if v["kind"] == "alias":
                ck.violation("runloop:alias-loop:" + v["why"].replace(" ", "-")[:50], "script-command loop, %s at line %d of %s: %s" % (v["cmd"], v["line"], v["file"], v["why"]), v)
    ck.notes["legD_runloop"] = {"files": res["files"], "skipped_files": res["skipped"], "records": res["records"], "loop_instances": lp, "events": ev, "bindings": bd}
    ck.cmds.append("vh run-record (proxy-logged run of /repo/test/**/*.ds); lib/runloop.py regroup; tlc RunLoop_Trace.tla")
    return res
