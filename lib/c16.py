"""C16 - text, comparison and arithmetic commands compute the documented function."""
import os, vlib


def run(ck):
    q = ck.tier == "quick"
    vlib.clean(ck.wd)
    u = vlib.vh_json(["c16-unit"])["unit"]
    L = 3 if q else 4
    ck.rule = ("the unit of positions is read off the real strlen on a multi-byte probe (this run: %s) and the matching configuration of Strings.tla "
               "is used; leg A: every text over {a, b, e-acute, a 4-byte emoji, space} up to length %d (one state per text) x 15 needles x every index "
               "pair in [-2, size+1]: prefix relation and split/join in the reference; leg B: the expected output of every command for every state "
               "replayed on the real SDK (strlen, indexof, last_indexof, substring 0/1/2 indexes, contains, starts_with, ends_with, equals, is_empty, "
               "concat, replace, split, trim*, upper/lowercase) plus less_than / greater_than over a decimal pool, calc over integer expression trees, "
               "range over integer pairs, and out-of-domain inputs (error result); leg C: random Unicode texts validated by TLC. "
               "distinct_nontrivial = distinct (command, arguments) cases" % (u, L))
    cfg = "C16_A_%s.cfg" % u if q else "C16_A4_%s.cfg" % u
    a = vlib.tlc("C16_MC", cfg, ck.wd, workers=8, timeout=3000, xmx="12g")
    ck.add_tlc(a, "A: texts up to length %d, unit %s" % (L, u))
    s = vlib.vh_json(["c16-replay", a.out_path], timeout=6000)
    ck.traces += s["cases"]; ck.evaluations += s["cases"]; ck.distinct += s["cases"]
    for b in s["bad"]:
        ck.violation("strings:%s%s" % (b["case"]["cmd"], ":panic" if "panic" in b["why"] else ""), "%r: %s" % (b["line"], b["why"][:300]), b)
    for x in s["samples"]:
        ck.sample(x)
    ck.notes["legB"] = {"texts": s["texts"], "cases": s["cases"], "unit": u}
    os.remove(a.out_path)
    ck.cmds.append("vh c16-unit; tlc %s C16_MC.tla; vh c16-replay; vh c16-record; tlc C16_Trace.tla" % cfg)
    n = 10000 if q else 200000
    tr = os.path.join(ck.wd, "c16_trace.ndjson")
    vlib.vh_json(["c16-record", ck.seed, n, tr], timeout=3000)
    r, k, viol, drift = vlib.trace_validate("C16_Trace", "C16_Trace_%s.cfg" % u, ck.wd, tr, timeout=5000)
    if k != n:
        raise vlib.ToolError("trace validation consumed %d of %d" % (k, n))
    ck.add_tlc(r, "C: %d random cases" % n)
    ck.traces += n; ck.evaluations += n; ck.distinct += n
    for v in viol:
        ck.violation("strings:%s%s" % (v["cmd"], ":panic" if "panic" in v["err"] else ""), "%s %s %s -> %r %s, expected %s" % (
            v["cmd"], [vlib.uncps(a) for a in v["args"]], v["ints"], vlib.uncps(v["out"]) if v["has_out"] else None, v["err"], v["exp"]), v)
    ck.notes["legC"] = {"cases": n, "seed": ck.seed}
    ck.assumptions += ["open corners (not compared): an index equal to the text size in substring (the code rejects it), empty needle / pattern / separator",
                       "decimal results of calc and case mapping beyond ASCII + e-acute are outside what the model decides (DESIGN section 11)"]
