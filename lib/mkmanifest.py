#!/usr/bin/env python3
"""Writes /verif/MANIFEST.json from the table below (one source of truth for the interface)."""
import json, os
ROOT = os.path.dirname(os.path.dirname(os.path.abspath(__file__)))
TRUST = "TLC 1.8 and the CommunityModules Json/IOUtils; the Rust harness (vh) that drives the public API of /repo's crates; rustc/cargo"
CHECKS = {
 "C09": ("DESIGN.md section 6 C09",
         "EvalWrap (R: identity; I: eval.rs re-serialise o Parser o Expansion) model-checked for every value over 13 character classes: the wrapper is the identity outside the value classes of the recorded finding; every value list replayed through the real direct call / if / elseif / while / not / alias with a capture command and through 5 predicates; random Unicode values recorded and validated by TLC. A deviation counts as the recorded finding only if the real command received exactly what the model of the re-serialisation predicts.",
         "small-scope exhaustive on values, sampled on Unicode; known finding classes are derived by the model",
         "TLA+ spec + TLC exhaustive; spec->impl replay; impl->spec trace validation"),
 "C02": ("DESIGN.md section 6 C02",
         "Binding (template semantics: verbatim, single pass, one argument per template, spread = words) model-checked against Expansion (transcription of expansion.rs + bind_command_arguments) for every value over 12 character classes; every emitted case bound by the real run_instruction and parse_text+run_script; random Unicode templates recorded from the real runner validated by TLC.",
         "small-scope exhaustive on values, sampled on Unicode; templates inside the stated domain",
         "TLA+ spec + TLC exhaustive; spec->impl replay; impl->spec trace validation"),
 "C01": ("DESIGN.md section 6 C01",
         "Bounded-exhaustive model checking of Syntax (documented line syntax as a renderer) against Parser (transcription of parser.rs): every rendering of every bounded instruction parses back; bound to the code by replaying every emitted rendering into parse_text and by TLC trace validation of random Unicode scripts recorded from parse_text.",
         "small-scope (16 character classes, <=3 arguments) exhaustive, sampled beyond; Syntax.tla is the reading of the documented syntax",
         "TLA+ spec + TLC exhaustive; spec->impl replay; impl->spec trace validation"),
 "C08": ("DESIGN.md section 6 C08",
         "All lines over 13 character classes up to length L model-checked for totality/shape and replayed into parse_text with the model's exact prediction; single-defect malformed lines (Syntax!Malformed) rejected with the documented kind at their own line, replayed at 5 positions x LF/CRLF; random Unicode texts recorded from parse_text validated by Parser!ParseText in TLC.",
         "small-scope exhaustive on lines, sampled on texts; texts without !include_files",
         "TLA+ spec + TLC exhaustive; spec->impl replay; impl->spec trace validation"),
}
NOT_YET = {}
ALL = ["C%02d" % i for i in range(1, 21)]


def main():
    checks = []
    for pid in ALL:
        if pid not in CHECKS:
            continue
        ref, text, note, tech = CHECKS[pid]
        checks.append({
            "property_id": pid,
            "quick_cmd": "./check %s --tier quick" % pid,
            "thorough_cmd": "./check %s --tier thorough" % pid,
            "evidence_file": "evidence/%s.json" % pid,
            "replay_cmd_template": "./check %s --replay {path}" % pid,
            "engine": "tlc+vh",
            "level_claimed": {"category": "model_checking", "text": text, "design_ref": ref},
            "level_note": note + "; trusted base: " + TRUST,
            "technique": tech,
        })
    na = [{"property_id": p, "reason": NOT_YET.get(p, "check not built yet in this round (planned; see DESIGN.md section 10 build order)")}
          for p in ALL if p not in CHECKS]
    m = {
        "version": 1,
        "setup_cmd": "./setup.sh",
        "hooks": {
            "guard": "cargo feature `verif` of crate duckscript (none of the registered checks needs it; no hook commit exists)",
            "enable": "checks build /verif/harness (path dependencies on /repo/duckscript and /repo/duckscript_sdk) with cargo build --offline",
            "baseline_off_cmd": "cd /repo && cargo nextest run --workspace --no-fail-fast --tool-config-file pb:/w/lib/nextest.toml --profile pb --test-threads 8 --offline || cargo test --workspace --no-fail-fast --offline",
            "source_commits": [],
            "add_only": True,
        },
        "engines": [
            {"name": "tlc+vh", "path": "check", "serves_properties": sorted(CHECKS),
             "kind_free_text": "python driver: TLC (spec/*.tla) model checking + case emission, Rust harness vh (harness/) replaying into / recording from the real crates, TLC trace validation"}],
        "checks": checks,
        "not_applicable": na,
        "notes": "exit 2 = tool error/timeout (no verdict). known_findings.json lists recorded genuine defects; fixed ones suppress nothing.",
    }
    with open(os.path.join(ROOT, "MANIFEST.json"), "w") as f:
        json.dump(m, f, indent=1)


if __name__ == "__main__":
    main()
