#!/usr/bin/env python3
"""Writes /verif/MANIFEST.json from the table below (one source of truth for the interface)."""
import json, os
ROOT = os.path.dirname(os.path.dirname(os.path.abspath(__file__)))
TRUST = "TLC 1.8 and the CommunityModules Json/IOUtils; the Rust harness (vh) that drives the public API of /repo's crates; rustc/cargo"
CHECKS = {
 "C07": ("DESIGN.md section 6 C07",
         "Catalogue.tla defines the input space by argument kind (numbers incl. huge / decimal / non-numeric, multi-byte and quoted texts, live / released / never-issued / wrong-kind handles, flags, names, paths) and reads the live registry, so every registered command outside the property's exclusions is enumerated (untyped pool at arity 0..2 + reduced arity 3, typed products for 48 signatures); random stateful behaviours come from C07_Seq; all invocations, sequences, random script texts and two probes run in worker subprocesses under a per-invocation watchdog and a memory limit, and every case is validated by the Invoke/Return trace specification: a panic, abort or hang has no counterpart.",
         "input-space exploration: the oracle is only 'returns a documented result kind'; pools are finite representatives",
         "TLA+ catalogue + TLC enumeration; spec->impl replay in subprocesses; impl->spec trace validation"),
 "C20": ("DESIGN.md section 6 C20",
         "Cli.tla gives, for every invocation form and every script of the bounded builder (outcome classes success / crash / non-zero exit / zero exit / parse error / missing file; label, output and command spellings with and without upper-case letters), the exit status, the presence of an 'Error:' line and whether the script may run (lint must not); the duck binary built from /repo's tree is run as a subprocess on every case and also compared with the in-process library run of the same script (success and captured output); random longer scripts are validated by TLC.",
         "small-scope exhaustive on scripts x forms; the REPL is not covered",
         "TLA+ spec + TLC exhaustive; spec->impl replay (subprocess); impl->spec trace validation"),
 "C17": ("DESIGN.md section 6 C17",
         "Codec.tla transcribes UTF-8, base64 and hex with integer arithmetic and defines the JSON normalisation on trees, so TLC is an independent oracle for the bytes and encoded texts: every text over an alphabet with NUL / control / 1-4-byte characters, boundary integers, 187 JSON documents and 90 property maps are replayed through string_to_bytes / base64_encode / base64_decode / bytes_to_string, hex_encode / hex_decode, json_parse --collection + json_encode --collection and map_to_properties + map_load_properties; random larger inputs are validated by TLC.",
         "small-scope exhaustive on texts, sampled beyond; JSON lexical forms and properties escaping not transcribed (identity oracle only)",
         "TLA+ spec + TLC exhaustive; spec->impl replay; impl->spec trace validation"),
 "C16": ("DESIGN.md section 6 C16",
         "Strings.tla (plain string operations over code-point sequences with a Unit parameter; relations: substring(s,0,indexof(s,t)) followed by t is a prefix of s, join(split(s,sep),sep) = s; numbers as scaled integers; integer expression trees; half-open range) model-checked over every text of a 5-class alphabet with multi-byte characters; the expected output of every command for every text / needle / index pair is replayed on the real SDK in the unit the real strlen reports; random Unicode cases are validated by TLC.",
         "small-scope exhaustive on texts (<=3 quick, <=4 thorough), sampled beyond; floating-point calc and full Unicode case mapping out of scope",
         "TLA+ spec + TLC exhaustive; spec->impl replay; impl->spec trace validation"),
 "C19": ("DESIGN.md section 6 C19",
         "ScriptCmd.tla: the wrapper protocol of script-implemented commands as a state machine (publish, body steps incl. nested script commands and errors at any point, cleanup) model-checked for NoTrace, plus the TLA+-defined enumeration of invocation cases (20 commands x 56 argument shapes by kind x 5 calling contexts); every case is run on the real SDK in a fresh directory comparing the variable map and the handle-table size before and after; random sessions on a persistent context are validated by TLC against the R-level postcondition. Leg D: the script-command loop (eval_instructions) of every script-implemented command invoked by the repository's own test scripts validated by RunLoop_Trace, and every such invocation leaves the caller's variables unchanged.",
         "exhaustive over the case enumeration; sampled sessions; wget excluded; join_path's known hang skipped",
         "TLA+ spec + TLC exhaustive; spec->impl replay; impl->spec trace validation"),
 "C12": ("DESIGN.md section 6 C12",
         "Handles.tla (handle id -> vector / map / set; one Eff arm per command; released / never-issued / wrong-kind handles yield false and change nothing) - complete reachable state graph under size bounds with invariants; per-transition replay on the real SDK in which every collection ever created is re-read through the public commands after every step and the whole table is compared, with a real<->abstract handle bijection checked for injectivity; random long histories validated step by step by TLC.",
         "complete state graph over a small universe (quick replays a rotating tenth of the transitions of every state); sampled histories beyond",
         "TLA+ spec + TLC exhaustive state graph; per-transition spec->impl replay; impl->spec trace validation"),
 "C18": ("DESIGN.md section 6 C18",
         "FileTree.tla (path -> absent / dir / file(content) over a 6-path universe with explicit parent table; one Eff arm per command) evaluated on every consistent tree x every operation with sanity theorems (well-formed results, failing operations are no-ops, mv = cp ; rm); each of the ~23 000 cases is materialised in a fresh directory, the real command is run and the directory walked back and compared in full together with the output; random histories are validated step by step by TLC.",
         "exhaustive over the small universe (single operations from every tree), sampled histories; permissions/symlinks/directory sources out of domain",
         "TLA+ spec + TLC exhaustive case enumeration; spec->impl replay; impl->spec trace validation"),
 "C10": ("DESIGN.md section 6 C10",
         "OnError.tla (R-level fold over items; the spec renders items to lines and so owns the expected line/file of every failing instruction: top level, function body, loop body, branch, caller of a script-implemented command, included file; exit_on_error toggling) model-checked for LatestWins / StopsAtFirst on every item sequence; each sequence is run on the real SDK from file and from text and every get_last_error* observation, the output variable and the failing outcome (message, line, source) are compared; random 30-item sequences are validated by TLC.",
         "small-scope exhaustive on item sequences (<=3 quick, <=4 thorough), sampled beyond",
         "TLA+ spec + TLC exhaustive; spec->impl replay; impl->spec trace validation"),
 "C14": ("DESIGN.md section 6 C14",
         "Includes.tla (Flatten = directive kept + listed files flattened in order with (file, own line) provenance; Paste = textual inlining; first error in inclusion order) model-checked on every acyclic tree of the bounded builder; each tree is materialised on disk with rotating reference forms (relative, ./, .., absolute; directories with spaces) and parse_file is compared entry by entry, run_script_file with run_script of the pasted text; random 6-file trees recorded from parse_file are validated by TLC.",
         "small-scope exhaustive on trees, sampled beyond; acyclic trees only",
         "TLA+ spec + TLC exhaustive; spec->impl replay; impl->spec trace validation"),
 "C05": ("DESIGN.md section 6 C05",
         "Func.tla: builder-generated programs around one function (scoped or not; for-in / if-else / return with and without value / recursion in the body; calls with and without output variable, with arguments, in condition position); TLC checks that the goto machine (function call stack with saved scope, return / end function, depth-tagged for-in frames) refines the tree-walking reference in which every call starts afresh and a scoped call is isolated; every emitted program is run on the real SDK and compared (emit trace incl. the argument, final variables); larger random programs and a fixed probe family (return out of two or three nested for-in loops, called repeatedly, also from inside a loop of the caller) are validated by TLC against the reference.",
         "small-scope exhaustive on programs (<=7 lines quick, <=9 thorough), one function per program; sampled beyond; the property's two open corners are skipped",
         "TLA+ spec + TLC exhaustive refinement check; spec->impl replay; impl->spec trace validation"),
 "C04": ("DESIGN.md section 6 C04",
         "Flow.tla: a builder generates every well-nested program (if/elseif/else, while, for-in, every keyword spelling incl. canonical names and generic end, value / expression / command / negated-command conditions); TLC checks that the goto machine (transcription of find_commands, the per-construct call stacks, meta caches and the generic-end table) refines the tree-walking interpreter and that the block scan finds the ground-truth structure; every emitted program is run on the real SDK and compared with the reference emit trace and final variables; random programs up to ~120 lines / depth 6 are validated by TLC against the reference.",
         "small-scope exhaustive on programs (<=6 lines quick, <=7 thorough), sampled beyond",
         "TLA+ spec + TLC exhaustive refinement check; spec->impl replay; impl->spec trace validation"),
 "C11": ("DESIGN.md section 6 C11",
         "VarScope (a map and a stack of saved maps, 40 operations incl. --copy of undefined / duplicated names) - complete reachable state graph over a 3-name universe; one replay per transition on the real SDK comparing output, the whole variable map and every saved map of the scope stack; random long histories over 12 names and Unicode values validated step by step by TLC.",
         "complete state graph over a small universe; sampled beyond; outputs documented as None compared by success class",
         "TLA+ spec + TLC exhaustive state graph; per-transition spec->impl replay; impl->spec trace validation"),
 "C03": ("DESIGN.md section 6 C03",
         "Runner.tla is the property's abstract machine (poll, fetch, per-result transitions, on_error dispatch, later-duplicate-label-wins table). TLC enumerates every program of <=2 (thorough <=3) lines over all result kinds x 4 on_error configurations x text/file and prints each terminated behaviour; all are replayed through run_script / run_script_file with scripted commands and compared (invocation sequence with bound arguments, final variables, outcome, error line and source); random 40-line programs executed by the real runner are validated step by step by the trace spec C03_Trace (silent steps for unlogged lines). Leg D: RunLoop.tla / RunLoop_Trace.tla - the runner loop validated event by event on proxy-logged runs of the repository's own test scripts (line progression, store rule, on_error dispatch).",
         "small-scope exhaustive on programs, sampled beyond; scripted harness commands stand for arbitrary commands",
         "TLA+ spec + TLC exhaustive behaviours; spec->impl replay; impl->spec trace validation"),
 "C13": ("DESIGN.md section 6 C13",
         "Runner.tla with the halt flag: every program of <=2 lines x every halt point (k-th invocation raises the flag) model-checked for 'no further top-level instruction' and replayed on the real runner; liveness halt ~> returned under weak fairness with an asynchronous EnvHalt on non-terminating programs, no state constraint, with a vacuity guard; two real threads with random store instants recorded with one atomic counter and validated by HaltTrace (silent Poll / HaltStore), plus a binding demonstration (synthetic illegal trace rejected).",
         "exhaustive interleavings at model level; real interleavings are those the scheduler produces",
         "TLA+ spec + TLC (safety + liveness); spec->impl replay; impl->spec trace validation of two-thread runs"),
 "C15": ("DESIGN.md section 6 C15",
         "Registry (R: name table + alias table consulted first; I: transcription of Commands::set/get/remove) - complete reachable state graphs over 3- and 4-name universes checked for NoDanglingAlias, refinement and the three action properties; every transition replayed into the real Commands with full observation; random script-level histories (alias/unalias/remove_command/is_command_defined/fn) observed through the live registry and validated by TLC.",
         "complete state graph over small universes (histories of unbounded length over them); script level sampled",
         "TLA+ spec + TLC exhaustive state graph; per-transition spec->impl replay; impl->spec trace validation"),
 "C06": ("DESIGN.md section 6 C06",
         "Condition (R: truthiness table + and-of-ors over the grammar; I: transcription of the single-pass accumulator) model-checked on every well-formed statement up to N tokens generated by the grammar; every statement replayed with 3 spelling instantiations through the real not / if / elseif / while; random nested statements (to ~70 tokens) recorded and validated by TLC.",
         "small-scope exhaustive on token sequences, sampled on long statements; atoms are not command names",
         "TLA+ spec + TLC exhaustive; spec->impl replay; impl->spec trace validation"),
 "C09": ("DESIGN.md section 6 C09",
         "EvalWrap (R: identity; I: eval.rs re-serialise o Parser o Expansion) model-checked for every value over 13 character classes: the wrapper is the identity outside the value classes of the recorded finding; every value list replayed through the real direct call / if / elseif / while / not / alias with a capture command and through 5 predicates; random Unicode values recorded and validated by TLC. A deviation counts as the recorded finding only if the real command received exactly what the model of the re-serialisation predicts.",
         "small-scope exhaustive on values, sampled on Unicode; known finding classes are derived by the model",
         "TLA+ spec + TLC exhaustive; spec->impl replay; impl->spec trace validation"),
 "C02": ("DESIGN.md section 6 C02",
         "Binding (template semantics: verbatim, single pass, one argument per template, spread = words) model-checked against Expansion (transcription of expansion.rs + bind_command_arguments) for every value over 12 character classes; every emitted case bound by the real run_instruction and parse_text+run_script; random Unicode templates recorded from the real runner validated by TLC. Leg D: the bindings of every direct invocation in proxy-logged runs of the repository's own test scripts validated against Binding!Sem (RunLoop_Trace).",
         "small-scope exhaustive on values, sampled on Unicode; templates inside the stated domain",
         "TLA+ spec + TLC exhaustive; spec->impl replay; impl->spec trace validation"),
 "C01": ("DESIGN.md section 6 C01",
         "Bounded-exhaustive model checking of Syntax (documented line syntax as a renderer) against Parser (transcription of parser.rs): every rendering of every bounded instruction parses back; bound to the code by replaying every emitted rendering into parse_text and by TLC trace validation of random Unicode scripts recorded from parse_text.",
         "small-scope (16 character classes, <=3 arguments) exhaustive, sampled beyond; Syntax.tla is the reading of the documented syntax",
         "TLA+ spec + TLC exhaustive; spec->impl replay; impl->spec trace validation"),
 "C08": ("DESIGN.md section 6 C08",
         "All lines over 13 character classes up to length L model-checked for totality/shape and replayed into parse_text with the model's exact prediction; single-defect malformed lines (Syntax!Malformed) rejected with the documented kind at their own line, replayed at 5 positions x LF/CRLF; random Unicode texts recorded from parse_text validated by Parser!ParseText in TLC.",
         "small-scope exhaustive on lines, sampled on texts; texts without !include_files",
         "TLA+ spec + TLC exhaustive; spec->impl replay; impl->spec trace validation"),
}
NOT_YET = {}
ALL = ["C%02d" % i for i in range(1, 21)]


def main():
    checks = []
    for pid in ALL:
        if pid not in CHECKS:
            continue
        ref, text, note, tech = CHECKS[pid]
        checks.append({
            "property_id": pid,
            "quick_cmd": "./check %s --tier quick" % pid,
            "thorough_cmd": "./check %s --tier thorough" % pid,
            "evidence_file": "evidence/%s.json" % pid,
            "replay_cmd_template": "./check %s --replay {path}" % pid,
            "engine": "tlc+vh",
            "level_claimed": {"category": "model_checking", "text": text, "design_ref": ref},
            "level_note": note + "; trusted base: " + TRUST,
            "technique": tech,
        })
    na = [{"property_id": p, "reason": NOT_YET.get(p, "check not built yet in this round (planned; see DESIGN.md section 10 build order)")}
          for p in ALL if p not in CHECKS]
    m = {
        "version": 1,
        "setup_cmd": "./setup.sh",
        "hooks": {
            "guard": "cargo feature `verif` of crate duckscript (none of the registered checks needs it; no hook commit exists)",
            "enable": "checks build /verif/harness (path dependencies on /repo/duckscript and /repo/duckscript_sdk) with cargo build --offline",
            "baseline_off_cmd": "cd /repo && cargo nextest run --workspace --no-fail-fast --tool-config-file pb:/w/lib/nextest.toml --profile pb --test-threads 8 --offline || cargo test --workspace --no-fail-fast --offline",
            "source_commits": [],
            "add_only": True,
        },
        "engines": [
            {"name": "tlc+vh", "path": "check", "serves_properties": sorted(CHECKS),
             "kind_free_text": "python driver: TLC (spec/*.tla) model checking + case emission, Rust harness vh (harness/) replaying into / recording from the real crates, TLC trace validation"}],
        "checks": checks,
        "not_applicable": na,
        "notes": "exit 2 = tool error/timeout (no verdict). known_findings.json lists recorded genuine defects; fixed ones suppress nothing.",
    }
    with open(os.path.join(ROOT, "MANIFEST.json"), "w") as f:
        json.dump(m, f, indent=1)


if __name__ == "__main__":
    main()
