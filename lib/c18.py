"""C18 - file commands behave like operations on a simple file tree."""
import os, re, vlib


def run(ck):
    q = ck.tier == "quick"
    vlib.clean(ck.wd)
    ck.rule = ("leg A: FileTree!Eff over every consistent tree of two universes (1: 6 paths, 3 levels, a space and a non-ASCII character in names; 2: 7 paths where the targets of moving / copying into an existing directory are inside the universe and one directory name carries a dot; "
               "contents '' / 'x') x every operation (writefile, appendfile, write/read binary, touch, mkdir, rm, rm -r, rmdir, readfile, "
               "is_path_exists, is_file, is_dir, get_file_size, glob_array listing, basename, dirname, cp, mv with every target): results are "
               "well-formed trees, failing operations change nothing, mv = cp ; rm; leg B: every case materialised in a fresh directory, the "
               "real command run, the directory walked back and compared in full with the output; leg C: random histories, every step "
               "validated by TLC against Eff applied to the previously observed tree. distinct_nontrivial = distinct (tree, operation) cases + recorded steps")
    cases = os.path.join(ck.wd, "c18_cases.ndjson")
    ck.notes["legB"] = {}
    for pool, cfg in ((1, "C18_A.cfg"), (2, "C18_A2.cfg")):
        a = vlib.tlc("C18_MC", cfg, ck.wd, workers=1, timeout=3000, env={"OUT": cases}, tag="C18_A%d" % pool)
        counts = [int(x) for x in re.findall(r"\d+", list(a.tuples("COUNTS"))[0])]
        ck.add_tlc(a, "A: universe %d: %d trees, %d cases (evaluated in ASSUMEs: TLC reports a single state)" % (pool, counts[0], counts[1]))
        ck.states += counts[0]; ck.transitions += counts[1]
        s = vlib.vh_json(["c18-replay", cases, ck.wd], timeout=3000)
        ck.traces += s["cases"]; ck.evaluations += s["cases"]; ck.distinct += s["cases"]
        for b in s["bad"]:
            ck.violation("fs:%s%s%s" % (b["cmd"], ":same-path" if b["same_path"] else "", ":panic" if "panic" in b["why"] else ""),
                         "%s %s on %s: %s" % (b["cmd"], b["args"], b["tree"], b["why"][:400]), b)
        for x in s["samples"]:
            ck.sample(x)
        ck.notes["legB"]["universe%d" % pool] = {"trees": counts[0], "cases": s["cases"]}
        os.remove(cases)
    ck.cmds.append("tlc C18_A.cfg C18_MC.tla; vh c18-replay; vh c18-record; tlc C18_Trace.tla")
    nh, ln = (300, 60) if q else (6000, 100)
    tr = os.path.join(ck.wd, "c18_trace.ndjson")
    viol = []
    for pool in (1, 2):
        s = vlib.vh_json(["c18-record", ck.seed, nh if pool == 1 else nh // 2, ln, tr, ck.wd, pool], timeout=3000)
        r, k, vs, drift = vlib.trace_validate("C18_Trace", "C18_Trace%d.cfg" % pool, ck.wd, tr, timeout=3000, tag="C18_Trace%d" % pool)
        if k != s["events"]:
            raise vlib.ToolError("trace validation consumed %d of %d" % (k, s["events"]))
        ck.add_tlc(r, "C: universe %d: %d histories, %d steps" % (pool, s["histories"], s["events"]))
        ck.traces += s["histories"]; ck.evaluations += s["events"]; ck.distinct += s["events"]
        viol += vs
    for v in viol:
        same = len(v["a"]) > 1 and v["a"][0] == v["a"][1]
        ck.violation("fs:%s%s%s" % (v["cmd"], ":same-path" if same else "", ":panic" if v["err"] else ""),
                     "history %s: %s %s -> out %r (expected %s) %s; tree %s expected %s" % (v["hist"], v["cmd"], v["a"], v["out"], v["expout"], v["err"], str(v["after"])[:300], str(v["expected"])[:300]), v)
    ck.notes["legC"] = {"histories": s["histories"], "steps": s["events"], "seed": ck.seed}
    ck.assumptions += ["outside the domain as in the property: directory sources for cp/mv, the output of rm/rmdir on a missing path, permissions, symlinks",
                       "mv of a file to a missing target without extension (the help's example makes a directory) is not compared",
                       "readfile of a missing path: documented 'none', the code reports an error - either is accepted"]
