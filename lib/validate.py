#!/opt/veriftools/pyvenv/bin/python
import json, jsonschema, sys, glob
m = json.load(open('/verif/MANIFEST.json')); jsonschema.validate(m, json.load(open('/root/.vp/MANIFEST.schema.json'))); print("manifest ok")
es = json.load(open('/root/.vp/EVIDENCE.schema.json'))
for p in sorted(glob.glob('/verif/evidence/*.json')):
    jsonschema.validate(json.load(open(p)), es); print(p, "ok")
