"""C17 - encodings round-trip."""
import os, vlib


def run(ck):
    q = ck.tier == "quick"
    vlib.clean(ck.wd)
    ck.rule = ("leg A: Codec.tla (UTF-8, base64, hex as integer arithmetic; JSON normalisation on uniform trees): every text over {NUL, TAB, A, =, "
               "2-, 3-, 4-byte characters, space} up to length L (one state per text) round-trips in the model; 187 JSON documents (depth <=2, "
               "string/number/bool/null leaves, keys with dots, spaces, brackets, nulls in objects and arrays): Norm idempotent; leg B: for every "
               "text the real string_to_bytes bytes, base64_encode text, bytes_to_string and base64_decode round trips against the model's values; "
               "hex_encode/hex_decode on boundary integers up to 2^64-1; json_encode(json_parse --collection) of every document against Norm "
               "(compared as JSON values); map_to_properties / map_load_properties on 90 maps with keys / values over = : # ! space backslash "
               "and non-Latin-1 characters; leg C: random Unicode texts, integers and JSON documents (depth 3) validated by TLC. "
               "distinct_nontrivial = distinct inputs")
    a = vlib.tlc("C17_MC", "C17_A.cfg" if q else "C17_A4.cfg", ck.wd, workers=6, timeout=3000)
    ck.add_tlc(a, "A: texts up to length %d + JSON documents + maps" % (3 if q else 4))
    s = vlib.vh_json(["c17-replay", a.out_path], timeout=3000)
    total = s["texts"] + s["integers"] + s["json_documents"] + s["maps"]
    ck.traces += total; ck.evaluations += total; ck.distinct += total
    for b in s["bad"]:
        sig = "codec:%s" % b["kind"]
        if b["kind"] == "properties":
            sig += ":latin1" if b.get("latin1") else ":other"
        if "panic" in str(b["why"]):
            sig += ":panic"
        ck.violation(sig, "%s: %s" % ({k: v for k, v in b.items() if k not in ("why", "kind")}, str(b["why"])[:300]), b)
    for x in s["samples"]:
        ck.sample(x)
    ck.notes["legB"] = {k: s[k] for k in ("texts", "integers", "json_documents", "maps")}
    os.remove(a.out_path)
    ck.cmds.append("tlc C17_A*.cfg C17_MC.tla; vh c17-replay; vh c17-record; tlc C17_Trace.tla")
    n = 6000 if q else 150000
    tr = os.path.join(ck.wd, "c17_trace.ndjson")
    vlib.vh_json(["c17-record", ck.seed, n, tr], timeout=3000)
    r, k, viol, drift = vlib.trace_validate("C17_Trace", "Trace.cfg", ck.wd, tr, timeout=5000)
    if k != n:
        raise vlib.ToolError("trace validation consumed %d of %d" % (k, n))
    ck.add_tlc(r, "C: %d random cases" % n)
    ck.traces += n; ck.evaluations += n; ck.distinct += n
    for v in viol:
        ck.violation("codec:%s:C" % v["kind"], str({k2: v2 for k2, v2 in v.items() if k2 != "rec"})[:500], v)
    ck.notes["legC"] = {"cases": n, "seed": ck.seed}
    ck.assumptions += ["JSON lexical forms (escapes, exponents) and the java-properties escaping rules are not transcribed: there the model contributes generation and the identity oracle",
                       "a null root document is an open corner (nothing is left to encode)"]
