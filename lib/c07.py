"""C07 - no script can panic, abort or hang the embedding process."""
import os, json, random, vlib

LINES = ["o = {c} {a}", "{c} {a}", "if {a}", "else", "end", "elseif {a}", "for i in {a}", "o = set {a}", ":lbl o = {c} {a} # note", "fn <scope> f{n}", "return {a}",
         "!print {a}", "x = {c}", "{c} \"{a}", "{c} \\{a}", "  ", "# {a}", "o = not {c} {a}", "release {a}", "unset {a}", "exit_on_error false", "on_error {a} 3 src"]
ARGS = ["", "0", "-1", "99999999999999999999", "1.5", "héllo😀", "\"a b\"", "${{arr}}", "${{mp}}", "${{st}}", "${{rel}}", "${{nope}}", "%{{arr}}", "--copy", "-r", "--collection",
        "\"\"", "{{\"k\":[1,null]}}", "( true", "and", "or", "f.txt", "d", "*.txt", "a=b", "<scope>", "${{", "\\n", "handle:zzz"]
CMDS = ["substring", "array_get", "array_set", "map_put", "range", "random_range", "calc", "json_parse", "json_encode", "semver_parse", "scope_push_stack", "scope_pop_stack",
        "set_by_name", "get_by_name", "base64_decode", "bytes_to_string", "hex_encode", "split", "replace", "indexof", "trim", "temp_file", "set_env", "unset_env", "array_concat",
        "array_join", "set_from_array", "map_to_properties", "map_load_properties", "glob_array", "is_path_newer", "cp", "mv", "rm", "mkdir", "touch", "digest", "uppercase",
        "readfile", "writefile", "cat", "ls", "dump_variables", "get_all_var_names", "trigger_error", "assert_eq", "assert", "man", "noop", "eval", "concat", "equals"]


def texts(seed, n):
    r = random.Random(seed)
    out = []
    for _ in range(n):
        lines = []
        for _ in range(r.randint(1, 14)):
            t = r.choice(LINES)
            a = " ".join(r.choice(ARGS).replace("{{", "{").replace("}}", "}") for _ in range(r.randint(0, 3)))
            lines.append(t.replace("{c}", r.choice(CMDS)).replace("{a}", a).replace("{n}", str(r.randint(0, 3))))
        out.append("\n".join(lines) + "\n")
    return out


def run(ck):
    q = ck.tier == "quick"
    vlib.clean(ck.wd)
    wd = ck.wd
    ck.rule = ("the oracle is 'every invocation returns one of the documented result kinds' (Catalogue.tla / C07_Trace.tla); the specification "
               "supplies the input space: the real registry (203 commands read from the live SDK, 14 excluded by the property) x the untyped pool "
               "(26 kinds) at arity 0..2 plus a reduced arity-3 slice, plus typed products for 48 commands with a signature; mixed stateful "
               "sequences of 12 invocations over 58 stateful commands on one persistent context (handle-producing commands feed later ones); "
               "random script texts with the full SDK loaded (no loop constructs); probes: include cycle, self-referential alias. Everything runs "
               "in a worker subprocess with a fresh directory, a 5 s per-invocation watchdog and an address-space limit; a panic, abort or hang "
               "is attributed to the invocation in flight. distinct_nontrivial = distinct invocations with >=1 argument")
    names = os.path.join(wd, "c07_names.ndjson")
    nn = vlib.vh_json(["c07-names", names])
    a = vlib.tlc("C07_MC", "C07_A.cfg", wd, workers=4, timeout=1200, env={"NAMES": names})
    ck.add_tlc(a, "A: registry x argument lists (%d commands)" % nn["commands"])
    cases = []
    stride = 1
    for d in a.lines("CMD"):
        lists = d["lists"]
        cases.append({"seq": [{"cmd": d["cmd"], "args": x} for x in lists[::stride]], "fresh": True, "label": d["cmd"]})
    os.remove(a.out_path)
    nseq = 300 if q else 6000
    cfg = os.path.join(vlib.SPEC, "C07_SeqRun.cfg")
    with open(cfg, "w") as f:
        f.write("CONSTANTS D = 12 NSeq = %d Seed = %d\nSPECIFICATION Spec\nINVARIANT Emit\nCHECK_DEADLOCK FALSE\n" % (nseq, int(ck.seed) % 1000))
    sq = vlib.tlc("C07_Seq", "C07_SeqRun.cfg", wd, workers=2, timeout=1200, seed=ck.seed)
    os.remove(cfg)
    ck.add_tlc(sq, "A: %d random stateful behaviours of 12 invocations" % nseq)
    for s in sq.lines("SEQ"):
        cases.append({"seq": s, "fresh": False, "label": "seq"})
    os.remove(sq.out_path)
    for t in texts(ck.seed, 400 if q else 8000):
        cases.append({"text": vlib.cps(t), "label": "text"})
    cases.append({"probe": "include-cycle", "label": "probe:include-cycle"})
    cases.append({"text": vlib.cps("alias selfa selfa\nselfa\n"), "label": "probe:self-alias"})
    cf = os.path.join(wd, "c07_cases.ndjson")
    vlib.write_ndjson(cf, cases)
    ev = os.path.join(wd, "c07_events.ndjson")
    s = vlib.vh_json(["c07-run", cf, ev, wd, 5000], timeout=10000, mem_gb=6)
    r, k, viol, drift = vlib.trace_validate("C07_Trace", "Trace.cfg", wd, ev, timeout=3000)
    if k != len(cases):
        raise vlib.ToolError("trace validation consumed %d of %d" % (k, len(cases)))
    ck.add_tlc(r, "C: Invoke/Return validation of %d cases / %d invocations" % (len(cases), s["invocations"]))
    ck.traces += len(cases); ck.evaluations += s["invocations"]; ck.distinct += s["invocations"]
    flagged = {v["case"] for v in viol}
    for b in s["bad"]:
        inv = b["invocation"]
        cmd = inv.get("cmd", b["label"])
        label = b["label"] if b["label"] in ("seq", "text") or str(b["label"]).startswith("probe:") else cmd
        sig = "totality:%s:%s" % (b["why"], label if not (label == "seq") else "seq:" + cmd)
        if b["case"] not in flagged:
            raise vlib.ToolError("harness reported an abnormal invocation the trace spec accepted: %s" % b)
        ck.violation(sig, "%s %s -> %s" % (cmd, inv.get("args", ""), b["why"]), b)
    ck.sample({"command": cases[0]["label"], "first_argument_lists": [x["args"] for x in cases[0]["seq"][:6]]})
    ck.sample({"stateful_sequence": [(x["cmd"], x["args"]) for x in [c for c in cases if c["label"] == "seq"][0]["seq"]]})
    ck.sample({"script_text": vlib.uncps([c for c in cases if c["label"] == "text"][0]["text"])})
    ck.notes["coverage"] = {"registry": nn["commands"], "commands_in_domain": sum(1 for c in cases if c.get("fresh")), "sweep_cases": sum(len(c["seq"]) for c in cases if c.get("fresh")),
                            "stateful_sequences": nseq, "script_texts": sum(1 for c in cases if c["label"] == "text"), "invocations": s["invocations"],
                            "abnormal": s["abnormal"], "worker_starts": s["worker_starts"], "abnormal_not_reproduced_on_a_second_run": s.get("not_reproduced", 0)}
    for f in (cf, ev):
        os.remove(f)
    # temp_file / temp_dir of the SDK leave their results under the system temp directory: remove the ones this run made
    import glob, shutil
    for f in glob.glob("/tmp/fsio_*"):
        try:
            if os.path.getmtime(f) >= ck.t0 - 1:
                shutil.rmtree(f) if os.path.isdir(f) else os.remove(f)
        except OSError:
            pass
    ck.cmds.append("vh c07-names; tlc C07_A.cfg C07_MC.tla; tlc C07_Seq.tla; vh c07-run (worker subprocesses); tlc C07_Trace.tla")
    ck.assumptions += ["excluded as in the property: read, sleep, exec, spawn, watchdog, exit/quit, http_client, wget, ftp_*",
                       "allocation proportional to a valid huge number (random_text 2^63) is outside the domain",
                       "random script texts contain no loop constructs (a script that loops forever by itself is not a violation)"]
