#!/usr/bin/env python3
"""lib/seedall.py [dir ...] - regression over the kept seeded changes: for every seeded/<dir>/ apply patch.diff to /repo, run the
quick check of the property it breaks, undo it; every run must exit 1 with a VIOLATION line.  Writes seeded/RESULTS.json."""
import json, os, subprocess, sys, time, glob
ROOT = os.path.dirname(os.path.dirname(os.path.abspath(__file__)))
dirs = sys.argv[1:] or sorted(os.path.basename(os.path.dirname(p)) for p in glob.glob(os.path.join(ROOT, "seeded", "*", "patch.diff")))
res = {}
if subprocess.run(["git", "-C", "/repo", "status", "--porcelain"], capture_output=True, text=True).stdout.strip():
    print("refusing: /repo has local modifications"); sys.exit(2)
for d in dirs:
    pid = d[:3]
    patch = os.path.join(ROOT, "seeded", d, "patch.diff")
    r = subprocess.run(["git", "-C", "/repo", "apply", patch], capture_output=True, text=True)
    if r.returncode:
        res[d] = {"rc": None, "note": "patch does not apply: " + r.stderr[:200]}; print(d, res[d]); continue
    t0 = time.time()
    try:
        p = subprocess.run(["./check", pid, "--tier", "quick"], cwd=ROOT, capture_output=True, text=True, timeout=3600)
        sigs = [l.strip()[:160] for l in p.stdout.splitlines() if l.startswith("  sig=")]
        res[d] = {"property": pid, "rc": p.returncode, "wall_s": round(time.time() - t0), "first_signatures": sigs[:3]}
    finally:
        subprocess.run(["git", "-C", "/repo", "checkout", "--", "."])
        subprocess.run(["git", "-C", "/repo", "clean", "-fdq", "--", "duckscript", "duckscript_sdk", "duckscript_cli"])
    print(d, "rc=%s" % res[d]["rc"], "%ss" % res[d]["wall_s"], (res[d]["first_signatures"] or [""])[0][:100], flush=True)
out = os.path.join(ROOT, "seeded", "RESULTS.json")
allres = json.load(open(out)) if os.path.exists(out) and sys.argv[1:] else {}      # a partial run updates the file, a full run rewrites it
allres.update(res)
json.dump(dict(sorted(allres.items())), open(out, "w"), indent=1)
missed = [d for d, v in res.items() if v["rc"] != 1]
print("caught %d of %d; not caught: %s" % (len(res) - len(missed), len(res), missed))
subprocess.run(["git", "-C", ROOT, "checkout", "evidence"])
sys.exit(0 if not missed else 1)
