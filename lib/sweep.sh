#!/bin/bash
# lib/sweep.sh <tier> <ID>... : run the given checks one after another (used with `vp run` for the thorough tier); prints one summary line each
tier=$1; shift
for i in "$@"; do
  s=$(date +%s)
  timeout 3h ./check $i --tier $tier > sweep_$i.log 2>&1; rc=$?
  echo "SWEEP $i tier=$tier rc=$rc wall=$(( $(date +%s) - s ))s :: $(grep -E '^\[C[0-9]+\]' sweep_$i.log | tail -1)"
  grep -E "^VIOLATION|^  sig=" sweep_$i.log | head -6
done
echo SWEEP DONE
