"""C15 - the command registry is a consistent name/alias map."""
import os, vlib


def run(ck):
    q = ck.tier == "quick"
    wd = ck.wd
    vlib.clean(wd)
    ck.rule = ("leg A: complete reachable state graph of Registry (R name/alias tables + I transcription of Commands) over universes of 3 and "
               "4 names with 11 / 16 command descriptors (names equal to other commands' aliases included): NoDanglingAlias, ImplRefines, "
               "RefusedSetIsNoOp, AcceptedSetReachable, RemoveExact; leg B: one replay per transition into the real Commands (get / exists / "
               "get_for_use for every name, get_all_command_names, alias table) ; leg C: random script-level histories (alias, unalias, "
               "remove_command, is_command_defined, fn) observed through the live registry after every step and validated by TLC. "
               "distinct_nontrivial = distinct transitions + recorded script-level steps")
    cfgs = ["C15_A3.cfg", "C15_A4.cfg"]
    for cfg in cfgs:
        a = vlib.tlc("C15_MC", cfg, wd, workers=6, timeout=3000, coverage=True)
        ck.add_tlc(a, "A: %s" % cfg)
        s = vlib.vh_json(["c15-replay", a.out_path], timeout=3000)
        ck.traces += s["transitions"]; ck.evaluations += s["transitions"] + s["states"]; ck.distinct += s["transitions"]
        for b in s["bad"]:
            op = b.get("op", {})
            ck.violation("registry:%s:%s" % (b["kind"], op.get("op", "state")), "after %s, %s: %s" % (b["path"], op, b["why"]), b)
        for x in s["samples"][:2]:
            ck.sample(x)
        ck.notes.setdefault("legB", []).append({"config": cfg, "states": s["states"], "transitions": s["transitions"]})
        os.remove(a.out_path)
    ck.exhaustive = False
    ck.cmds.append("tlc -coverage 1 -config C15_A{3,4}.cfg C15_MC.tla; vh c15-replay; vh c15-record; tlc C15_Trace.tla")
    nh, ln = (600, 30) if q else (12000, 60)
    tr = os.path.join(wd, "c15_trace.ndjson")
    s = vlib.vh_json(["c15-record", ck.seed, nh, ln, tr], timeout=3000)
    for b in s["bad"]:
        ck.violation("registry:script-run", b["why"], b)
    r, k, viol, drift = vlib.trace_validate("C15_Trace", "C15_Trace.cfg", wd, tr, timeout=3000)
    if k != s["events"]:
        raise vlib.ToolError("trace validation consumed %d of %d" % (k, s["events"]))
    if list(r.lines("HARNESS")):
        raise vlib.ToolError("the SDK's initial registry differs from the modelled universe: %s" % list(r.lines("HARNESS"))[:1])
    ck.add_tlc(r, "C: trace validation of %d script-level events" % s["events"])
    ck.traces += s["histories"]; ck.evaluations += s["events"]; ck.distinct += s["events"]
    seen = set()
    for v in viol:
        if v["hist"] in seen:
            continue        # later steps of a history that already diverged carry no information
        seen.add(v["hist"])
        ck.violation("registry:script:%s" % v["op"], "history %s: %s %s -> out %r (expected %r), resolves %s, expected %s, dangling=%s" % (
            v["hist"], v["op"], v["x"], v["out"], v["expout"], v["resolve"], v["expresolve"], v["dangling"]), v)
    ck.notes["legC"] = {"histories": s["histories"], "events": s["events"], "seed": ck.seed}
    ck.assumptions += ["script-level universe: pp qq rr echo set std::Echo on top of the SDK's real registry"]
