#!/usr/bin/env python3
"""lib/selftest.py [ID ...] - binding demonstration: for every trace leg, take the trace the last quick run left under
work/<ID>/, corrupt ONE recorded field of ONE record (or drop one event) the way a misplaced hook or a wrong
implementation would, and require the trace specification to reject it.  A tampered trace that is accepted means the
trace spec constrains nothing there.  Not a registered check (it never looks at /repo); run after ./check <ID>.
Writes selftest_report.json; exit 0 when every tampering was rejected."""
import sys, os, json, copy
sys.path.insert(0, os.path.dirname(os.path.abspath(__file__)))
import vlib

ROOT = vlib.ROOT


def flip(b):
    return not b


def first(recs, pred):
    for i, r in enumerate(recs):
        if pred(r):
            return i
    return None


# ID -> (trace file, module, cfg, mode, chooser predicate, mutation(record) -> None (in place) or "drop")
def m_c01(r): r["parsed"]["ins"][0]["cmd"] = [[122, 122]] if r["parsed"]["ins"][0].get("t") == "script" else r["parsed"]["ins"].pop()
def m_c02(r): r["got"] = [r["got"][0] + [120]] + r["got"][1:]
def m_c04(r): r["c"] = r["c"] + 1
def m_c06(r): r["obs"] = "F" if r["obs"] == "T" else "T"
def m_c08(r): r["parsed"]["ins"] = r["parsed"]["ins"][:-1]; r["linenos"] = r["linenos"][:-1]
def m_c09(r): r["received"] = [r["received"][0] + [33]] + r["received"][1:]
def m_c10(r): r["got"]["obs"][0]["line"] = r["got"]["obs"][0]["line"] + 1
def m_c11(r): r["out"] = [116, 114, 117, 101] if r["out"] != [116, 114, 117, 101] else [102, 97, 108, 115, 101]
def m_c12(r): r["out"] = "true" if r["out"] == "false" else "false"
def m_c14(r): r["got"] = {"err": "missing", "file": -1, "line": 0}
def m_c15(r): r["out"] = "true" if r["out"] == "false" else "false"
def m_c16(r): r["out"] = r["out"] + [33]
def m_c17(r): r["back"] = r["back"] + [1]
def m_c18(r): r["out"] = "true" if r["out"] == "false" else "false"
def m_c19(r): r["after"] = r["after"] + [[[122, 122, 122], [49]]]
def m_c20(r): r["obs"]["status0"] = not r["obs"]["status0"]


TABLE = {
    "C01": ("c01_trace.ndjson", "C01_Trace", "Trace.cfg", "linear", lambda r: r.get("parsed", {}).get("t") == "ok" and r["parsed"]["ins"], m_c01),
    "C02": ("c02_trace.ndjson", "C02_Trace", "Trace.cfg", "linear", lambda r: r.get("got"), m_c02),
    "C03": ("c03_trace.ndjson", "C03_Trace", "C03_Trace.cfg", "runs:prog", lambda r: r.get("ev") == "call", "drop"),
    "C04": ("c04_trace.ndjson", "C04_Trace", "C04_Trace.cfg", "linear", lambda r: r.get("ok") is True, m_c04),
    "C05": ("c05_trace.ndjson", "C05_Trace", "C05_Trace.cfg", "linear", lambda r: r.get("ok") is True, m_c04),
    "C06": ("c06_trace.ndjson", "C06_Trace", "Trace.cfg", "linear", lambda r: r.get("obs") in ("T", "F"), m_c06),
    "C08": ("c08_trace.ndjson", "C08_Trace", "Trace.cfg", "linear", lambda r: r["parsed"]["t"] == "ok" and len(r["parsed"]["ins"]) > 1, m_c08),
    "C09": ("c09_trace.ndjson", "C09_Trace", "Trace.cfg", "linear", lambda r: r.get("invoked") and r.get("received"), m_c09),
    "C10": ("c10_trace.ndjson", "C10_Trace", "Trace.cfg", "linear", lambda r: r["got"].get("obs"), m_c10),
    "C11": ("c11_trace.ndjson", "C11_Trace", "Trace.cfg", "linear", lambda r: r.get("ev") == "op" and r.get("cmd") == "is_defined", m_c11),
    "C12": ("c12_trace.ndjson", "C12_Trace", "C12_Trace.cfg", "linear", lambda r: r.get("ev") == "op" and r.get("out") in ("true", "false"), m_c12),
    "C13": ("c13_threads.ndjson", "HaltTrace", "HaltTrace.cfg", "runs:Reset", lambda r: r.get("ev") == "F", "dup"),
    "C14": ("c14_trace.ndjson", "C14_Trace", "Trace.cfg", "linear", lambda r: "ok" in r.get("got", {}), m_c14),
    "C15": ("c15_trace.ndjson", "C15_Trace", "C15_Trace.cfg", "linear", lambda r: r.get("ev") == "op" and r.get("out") in ("true", "false"), m_c15),
    "C16": ("c16_trace.ndjson", "C16_Trace", "C16_Trace_byte.cfg", "linear", lambda r: r.get("has_out") and not r.get("is_list") and r.get("cmd") in ("trim", "concat", "uppercase", "length", "substring"), m_c16),
    "C17": ("c17_trace.ndjson", "C17_Trace", "Trace.cfg", "linear", lambda r: r.get("kind") == "text" and r.get("err") == "", m_c17),
    "C18": ("c18_trace.ndjson", "C18_Trace", "C18_Trace2.cfg", "linear", lambda r: r.get("ev") == "op" and r.get("cmd") in ("mkdir", "writefile", "touch") and r.get("out") == "true", m_c18),
    "C19": ("c19_trace.ndjson", "C19_Trace", "Trace.cfg", "linear", lambda r: "after" in r, m_c19),
    "C20": ("c20_trace.ndjson", "C20_Trace", "Trace.cfg", "linear", lambda r: "obs" in r, m_c20),
}


def one(pid):
    f, module, cfg, mode, pred, mut = TABLE[pid]
    wd = vlib.workdir(pid)
    path = os.path.join(wd, f)
    if not os.path.exists(path):
        return {"id": pid, "status": "no trace (run ./check %s first)" % pid}
    recs = vlib.read_ndjson(path)
    if mode.startswith("runs:"):
        start = mode.split(":")[1]
        # keep the first 40 runs
        idx = [i for i, r in enumerate(recs) if r.get("ev") == start]
        recs = recs[:idx[40]] if len(idx) > 40 else recs
    else:
        recs = recs[:600]
    i = first(recs, pred)
    if i is None:
        return {"id": pid, "status": "no record to tamper with"}
    t = copy.deepcopy(recs)
    before = json.dumps(t[i])[:200]
    if mut == "drop":
        del t[i]
        what = "dropped event %d" % i
    elif mut == "dup":
        t.insert(i, copy.deepcopy(t[i]))
        what = "duplicated event %d" % i
    else:
        mut(t[i])
        what = "record %d: %s -> %s" % (i, before, json.dumps(t[i])[:200])
    res = {"id": pid, "module": module, "tampering": what[:420]}
    for label, data in (("untouched", recs), ("tampered", t)):
        p = os.path.join(wd, "selftest_%s.ndjson" % label)
        vlib.write_ndjson(p, data)
        if mode.startswith("runs:"):
            r, nruns, rej = vlib.validate_runs(module, cfg, wd, p, mode.split(":")[1], timeout=900)
            n = len(rej)
        else:
            env = {"NAMES": os.path.join(wd, "c07_names.ndjson")} if pid == "C07" else None
            r, k, viol, drift = vlib.trace_validate(module, cfg, wd, p, timeout=900, env=env)
            n = len(viol) + len(drift)
        res[label] = n
        os.remove(p)
    res["status"] = "rejected" if res["tampered"] > res["untouched"] else "ACCEPTED (the trace spec does not constrain this field)"
    return res


def main():
    ids = sys.argv[1:] or sorted(TABLE)
    out = []
    for pid in ids:
        try:
            r = one(pid)
        except Exception as e:  # noqa
            r = {"id": pid, "status": "tool error: %s" % str(e)[:300]}
        print("%s  %s  %s" % (r["id"], r["status"], r.get("tampering", "")[:160]))
        out.append(r)
    json.dump(out, open(os.path.join(ROOT, "selftest_report.json"), "w"), indent=1)
    sys.exit(0 if all(r["status"] == "rejected" for r in out) else 1)


if __name__ == "__main__":
    main()
