"""C13 - setting the halt flag stops the run at the next instruction boundary."""
import os, json, vlib


def run(ck):
    q = ck.tier == "quick"
    vlib.clean(ck.wd)
    ck.rule = ("leg A: Runner with the halt flag: (1) every program of <=2 lines x every halt point k<=4 (the k-th invocation, scripted command "
               "or on_error, raises the flag): no further top-level instruction starts (late = 0); (2) liveness without state constraint: "
               "non-terminating programs + asynchronous EnvHalt, weak fairness: halt ~> returned, and at most one instruction starts after "
               "the store; vacuity guard: 'every run terminates' must be violated; leg B: every behaviour of (1) replayed on the real runner "
               "(zero further invocations, returned variables); leg C: two real threads, random instants, events ordered by one atomic "
               "counter, validated by HaltTrace with silent Poll/HaltStore. distinct_nontrivial = halting runs replayed + thread runs")
    a = vlib.tlc("C03_MC", "C13_A2.cfg", ck.wd, workers=8, timeout=3400, xmx="16g")
    ck.add_tlc(a, "A(1): programs <=2 lines x halt point <=4")
    s = vlib.vh_json(["c03-replay", a.out_path, ck.wd], timeout=3400)
    ck.traces += s["runs"]; ck.evaluations += s["runs"]; ck.distinct += s["halting_runs"]
    for b in s["bad"]:
        kinds = sorted({w.split(" ")[0] for w in b["why"]})
        ck.violation("halt:%s" % "+".join(kinds), "script %r on_error=%s halt_at=%s: %s" % (b["text"], b["onerr"], b["haltAt"], "; ".join(b["why"])[:600]), b)
    for x in s["samples"]:
        ck.sample(x)
    ck.notes["legB"] = {"runs": s["runs"], "halting_runs": s["halting_runs"]}
    os.remove(a.out_path)
    lv = vlib.tlc("C13_Live", "C13_Live.cfg" if q else "C13_Live3.cfg", ck.wd, workers=8, timeout=3400, coverage=True)
    ck.add_tlc(lv, "A(2): liveness halt ~> returned, asynchronous flag")
    vac = vlib.tlc("C13_Live", "C13_Vac.cfg", ck.wd, workers=2, timeout=600, expect_violation=True)
    if vac.violated != "temporal":
        raise vlib.ToolError("vacuity guard: 'every run terminates' was not violated - the liveness model has no non-terminating program")
    ck.notes["vacuity_guard"] = "EveryRunTerminates violated as expected (non-terminating programs exist in the model)"
    ck.cmds.append("tlc C13_A2.cfg C03_MC.tla; vh c03-replay; tlc C13_Live.cfg C13_Live.tla; vh c13-threads; tlc HaltTrace.tla")
    runs = 2000 if q else 40000
    tr = os.path.join(ck.wd, "c13_threads.ndjson")
    s = vlib.vh_json(["c13-threads", ck.seed, runs, tr], timeout=3000)
    for b in s["bad"]:
        ck.violation("halt:late-return", b["why"], b)
    r, nruns, rej = vlib.validate_runs("HaltTrace", "HaltTrace.cfg", ck.wd, tr, "Reset", timeout=3000)
    ck.add_tlc(r, "C: HaltTrace over %d two-thread runs / %d events" % (nruns, s["events"]))
    ck.traces += nruns; ck.evaluations += s["events"]; ck.distinct += nruns
    for x in rej:
        ck.violation("halt:thread:%s" % x["first_unexplained_record"].get("ev"),
                     "two-thread run not explainable: %s" % " ".join(e["ev"] for e in x["run"]), x)
    # binding demonstration: a synthetic illegal tail must be rejected at the illegal Start
    bad = os.path.join(ck.wd, "c13_bad.ndjson")
    vlib.write_ndjson(bad, [{"ev": e} for e in ["Reset", "S", "F", "HB", "HE", "S", "F", "S", "F", "End"]])
    _, reached, total = vlib.trace_accept("HaltTrace", "HaltTrace.cfg", ck.wd, bad, tag="bind")
    if reached != 7:
        raise vlib.ToolError("binding demonstration failed: synthetic illegal trace reached %d of %d (expected rejection at the second Start after HE)" % (reached, total))
    ck.notes["binding_demo"] = "synthetic trace 'S F HB HE S F S F End' rejected at record 8 (second Start after HaltEnd)"
    shapes = {}
    cur = []
    for rec in vlib.read_ndjson(tr):
        if rec["ev"] == "Reset":
            if cur:
                k = " ".join(cur[-6:]); shapes[k] = shapes.get(k, 0) + 1
            cur = []
        else:
            cur.append(rec["ev"])
    ck.notes["legC"] = {"runs": nruns, "events": s["events"], "tail_shapes": dict(sorted(shapes.items(), key=lambda kv: -kv[1])[:10]), "seed": ck.seed}
    ck.sample({"two_thread_tail_shapes": list(shapes)[:5]})
    ck.assumptions += ["thread interleavings are those the OS scheduler produces under randomised delays; the exhaustive interleaving argument is at the model level",
                       "'in flight' includes an instruction whose poll preceded the store (no polling design can close that window)"]
