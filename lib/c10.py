"""C10 - command errors are reported, positioned and survivable (or fatal when asked)."""
import os, vlib


def run(ck):
    q = ck.tier == "quick"
    vlib.clean(ck.wd)
    n = 3 if q else 4
    ck.rule = ("leg A: every sequence of up to %d items over {failing command (trigger_error / assert_error / a script-implemented command) in 6 "
               "contexts: top level, function body, loop body (fails twice), branch, script-implemented command, included file} x 2 messages, "
               "exit_on_error true/false, observation; OnError!Exec (R) with the spec owning the line numbering; invariants LatestWins, StopsAtFirst; "
               "leg B: each sequence run on the real SDK from file and from text: every observation (get_last_error / _line / _source, output "
               "variable) and the outcome (message, failing line, source) compared; leg C: random sequences up to 30 items validated by TLC. "
               "distinct_nontrivial = distinct (sequence, mode) runs containing a failing command" % n)
    a = vlib.tlc("C10_MC", "C10_A.cfg" if q else "C10_A4.cfg", ck.wd, workers=8, timeout=3000)
    ck.add_tlc(a, "A: item sequences up to %d" % n)
    s = vlib.vh_json(["c10-replay", a.out_path, ck.wd], timeout=3000)
    ck.traces += s["runs"]; ck.evaluations += s["runs"]; ck.distinct += s["runs"]
    for b in s["bad"]:
        ctxs = sorted({i.get("ctx", "") for i in b["items"] if i["k"] == "fail"})
        ck.violation("onerror:%s:%s" % (b["mode"], "+".join(ctxs)), "%s run of %r: got %s expected %s" % (b["mode"], b["script"], str(b["got"])[:300], str(b["expected"])[:300]), b)
    for x in s["samples"]:
        ck.sample(x)
    ck.notes["legB"] = {"sequences": s["cases"], "runs": s["runs"], "modes": ["file", "text"]}
    os.remove(a.out_path)
    ck.cmds.append("tlc C10_A*.cfg C10_MC.tla; vh c10-replay; vh c10-record; tlc C10_Trace.tla")
    m = 1500 if q else 30000
    tr = os.path.join(ck.wd, "c10_trace.ndjson")
    s = vlib.vh_json(["c10-record", ck.seed, m, tr, ck.wd], timeout=3000)
    r, k, viol, drift = vlib.trace_validate("C10_Trace", "Trace.cfg", ck.wd, tr, timeout=3000)
    if k != m:
        raise vlib.ToolError("trace validation consumed %d of %d" % (k, m))
    ck.add_tlc(r, "C: %d random programs, %d items" % (m, s["items"]))
    ck.traces += m; ck.evaluations += s["items"]; ck.distinct += m
    for v in viol:
        ck.violation("onerror:large:%s" % v["mode"], "%s run of %d items: got %s expected %s" % (v["mode"], len(v["items"]), str(v["got"])[:300], str(v["exp"])[:300]), v)
    ck.notes["legC"] = {"programs": m, "items": s["items"], "seed": ck.seed}
    ck.assumptions += ["error message texts are compared only when supplied by the test (a script-implemented command's own message only has to be non-empty)",
                       "errors raised inside a function invoked in condition position are outside the quantifier"]
