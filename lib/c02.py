"""C02 - variable binding is verbatim, single-pass and never changes the argument count."""
import os, vlib


def sig_of(spread, same_as_model, vals):
    """signature of a binding mismatch.  The recorded finding (spread values re-tokenised with quote
    grouping / '#' comments) is recognised only when a spread is involved, the real result is exactly
    what the I-level model of that re-tokenisation predicts, and a spread value contains '"' or '#'."""
    if spread and same_as_model:
        cls = sorted({c for v in vals for c in (("quote",) if '"' in v else ()) + (("hash",) if '#' in v else ())})
        if cls:
            return "spread-retokenised:" + "+".join(cls)
    return "bind-mismatch:" + ("spread" if spread else "single")


def run(ck):
    q = ck.tier == "quick"
    wd = ck.wd
    vlib.clean(wd)
    ck.rule = ("leg A: every value of ${a} over 12 character classes up to length VL (one state per value) x 60 templates x 2-3 "
               "environments x argument positions: Expansion!Bind = Binding!Sem; leg B: each emitted (written args, env) bound by the real "
               "run_instruction and by parse_text+run_script, received arguments compared with Sem; leg C: random Unicode templates bound by "
               "run_instruction, validated by TLC. distinct_nontrivial = distinct (written args, env) cases with >=1 variable reference; leg D: the repository's own test scripts (/repo/test/**/*.ds) run on the real SDK behind a logging proxy; every direct invocation's received arguments are validated by RunLoop_Trace against Binding!Sem of the written arguments under the logged variables (R-level when the written text is inside the template syntax, Expansion!Bind otherwise: drift)")
    a = vlib.tlc("C02_MC", "C02_A2.cfg" if q else "C02_A3.cfg", wd, workers=8, timeout=3000, xmx="12g")
    ck.add_tlc(a, "A: values up to length %d" % (2 if q else 3))
    ck.cmds.append("tlc -config C02_A*.cfg C02_MC.tla; vh c02-replay; vh c02-record; tlc C02_Trace.tla")
    s = vlib.vh_json(["c02-replay", a.out_path], timeout=3000)
    ck.traces += 2 * s["cases"]; ck.evaluations += 2 * s["cases"]; ck.distinct += s["cases"]
    for b in s["bad"]:
        vals = list(b["env"].values())
        ck.violation(sig_of(b["spread"], b["same_as_model"], vals),
                     "%s: written %r env %r received %r expected %r" % (b["path"], b["written"], b["env"], b["got"], b["expected"]), b)
    if s["mismatches"] > len(s["bad"]):
        ck.notes["legB_mismatches_not_listed"] = s["mismatches"] - len(s["bad"])
    for x in s["samples"]:
        ck.sample(x)
    ck.notes["legB"] = {"states": s["states"], "cases": s["cases"], "paths": ["run_instruction", "parse_text+run_script"], "drift": s.get("drift", 0)}
    os.remove(a.out_path)
    n = 20000 if q else 200000
    tr = os.path.join(wd, "c02_trace.ndjson")
    vlib.vh_json(["c02-record", ck.seed, n, tr])
    r, m, viol, drift = vlib.trace_validate("C02_Trace", "Trace.cfg", wd, tr, timeout=3000)
    if m != n:
        raise vlib.ToolError("trace validation consumed %d of %d" % (m, n))
    if list(r.lines("HARNESS")):
        raise vlib.ToolError("harness template writer diverges from Binding!Written")
    ck.add_tlc(r, "C: trace validation of %d random bindings" % n)
    ck.traces += n; ck.evaluations += n; ck.distinct += n
    for v in viol:
        vals = [vlib.uncps(x) for x in v["spreadvals"]]
        spread = any(vlib.uncps(w).startswith("%{") for w in v["written"])
        ck.violation(sig_of(spread, v["got"] == v["model"], vals),
                     "written %r received %r expected %r" % ([vlib.uncps(w) for w in v["written"]], [vlib.uncps(w) for w in v["got"]], [vlib.uncps(w) for w in v["exp"]]), v)
    ck.drift += [{"written": [vlib.uncps(w) for w in d["written"]]} for d in drift[:10]]
    ck.notes["legC"] = {"bindings": n, "seed": ck.seed}
    import runloop
    runloop.leg(ck, "C02", sig_of)
    ck.assumptions += ["templates inside the property's domain only: literal text free of $ % and backslash; names free of white space, = and }",
                       "spread (%{name}) is a whole argument"]
