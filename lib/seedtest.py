#!/usr/bin/env python3
"""lib/seedtest.py <patch.diff> <ID> [<ID>...]  - apply a seeded change to /repo, run the quick checks, undo it.
Prints one line per check: <ID> rc=<0|1|2> and the VIOLATION / KNOWN-FINDING lines. Always restores /repo (git checkout -- .)."""
import subprocess, sys, os, json, time
patch = os.path.abspath(sys.argv[1])
ids = sys.argv[2:]
st = subprocess.run(["git", "-C", "/repo", "status", "--porcelain"], capture_output=True, text=True).stdout.strip()
if st:
    print("refusing: /repo has local modifications:\n" + st); sys.exit(2)
r = subprocess.run(["git", "-C", "/repo", "apply", patch], capture_output=True, text=True)
if r.returncode != 0:
    print("patch does not apply:", r.stderr); sys.exit(2)
res = {}
try:
    for i in ids:
        t0 = time.time()
        p = subprocess.run(["./check", i, "--tier", "quick"], cwd="/verif", capture_output=True, text=True, timeout=3600)
        lines = [l for l in p.stdout.splitlines() if l.startswith("VIOLATION") or l.startswith("  sig=") or l.startswith("KNOWN-FINDING")]
        res[i] = {"rc": p.returncode, "wall_s": round(time.time() - t0), "lines": lines[:12], "stderr_tail": p.stderr[-600:] if p.returncode == 2 else ""}
        print(i, "rc=%d" % p.returncode, "%ds" % (time.time() - t0))
        for l in lines[:6]:
            print("   ", l[:300])
        if p.returncode == 2:
            print("   stderr:", p.stderr[-400:])
finally:
    subprocess.run(["git", "-C", "/repo", "checkout", "--", "."])
    subprocess.run(["git", "-C", "/repo", "clean", "-fdq", "--", "duckscript", "duckscript_sdk", "duckscript_cli"])
print(json.dumps(res))
