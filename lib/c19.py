"""C19 - script-implemented library commands leave no trace in the caller's variables."""
import os, re, vlib


def run(ck):
    q = ck.tier == "quick"
    vlib.clean(ck.wd)
    ck.rule = ("leg A: the wrapper protocol of script-implemented commands (publish arguments + temporary array, body steps that set working "
               "variables / create and release handles / unset caller variables / invoke another script command, error at any point, cleanup) "
               "explored exhaustively: NoTrace; the same run enumerates the invocation cases: 20 script-implemented commands x 56 argument shapes "
               "by kind (live array/map/set, released, never-issued handle, word, value with spaces and syntax characters, empty, number, "
               "existing / missing path) x 5 contexts (top level, function, loop, function+loop+branch, 50 times in a row); leg B: each case on "
               "the real SDK in a fresh directory: variable map and handle-table size before/after; leg C: random sessions on one persistent "
               "context validated by TLC. distinct_nontrivial = distinct (command, shape, context) cases + recorded invocations; leg D: the script-command loop (eval_instructions) of every script-implemented command invoked by the repository's own test scripts is validated by RunLoop_Trace (its own store / goto rules) and every such invocation must leave the caller's variables unchanged")
    a = vlib.tlc("C19_MC", "C19_A.cfg", ck.wd, workers=4, timeout=600, coverage=True)
    ck.add_tlc(a, "A: wrapper protocol + case enumeration")
    counts = [int(x) for x in re.findall(r"\d+", list(a.tuples("COUNTS"))[0])]
    s = vlib.vh_json(["c19-replay", a.out_path, ck.wd], timeout=3000)
    ck.traces += s["cases"]; ck.evaluations += s["invocations"]; ck.distinct += s["cases"]
    for b in s["bad"]:
        what = b["why"].split(":")[0].split(" ")[0]
        ck.violation("scriptcmd:%s:%s" % (b["cmd"], what), "%s %s in %s: %s" % (b["cmd"], b["shape"], b["ctx"], b["why"][:300]), b)
    for x in s["samples"]:
        ck.sample(x)
    ck.notes["legB"] = {"commands": counts[0], "shapes": counts[1], "cases": s["cases"], "invocations": s["invocations"],
                        "skipped_known_hang_join_path": s.get("skipped_known_hang", 0)}
    os.remove(a.out_path)
    ck.cmds.append("tlc -coverage 1 C19_A.cfg C19_MC.tla; vh c19-replay; vh c19-record; tlc C19_Trace.tla")
    ns, ln = (60, 80) if q else (1500, 150)
    tr = os.path.join(ck.wd, "c19_trace.ndjson")
    s = vlib.vh_json(["c19-record", ck.seed, ns, ln, tr, ck.wd], timeout=3000)
    r, k, viol, drift = vlib.trace_validate("C19_Trace", "Trace.cfg", ck.wd, tr, timeout=3000)
    if k != s["events"]:
        raise vlib.ToolError("trace validation consumed %d of %d" % (k, s["events"]))
    ck.add_tlc(r, "C: %d sessions, %d invocations" % (s["sessions"], s["events"]))
    ck.traces += s["sessions"]; ck.evaluations += s["events"]; ck.distinct += s["events"]
    for v in viol:
        ck.violation("scriptcmd:%s:%s" % (v["cmd"], "handle" if not v["handlesOK"] else ("variables" if not v["same"] or not v["noScope"] else "run")),
                     "%s %s: err=%r noScope=%s same=%s handles %s" % (v["cmd"], v["shape"], v["err"], v["noScope"], v["same"], v["handles"]), v)
    ck.notes["legC"] = {"sessions": s["sessions"], "invocations": s["events"], "seed": ck.seed}
    import runloop
    runloop.leg(ck, "C19")
    ck.assumptions += ["join_path with a value containing quotes / '#' never returns (its own while loop; recorded under C07/C09) and cannot be interrupted in-process: those cases are skipped here",
                       "wget (network) is excluded; the handle table size is read from Context.state as the property's observation point names it"]
