"""C20 - the command-line tool reports what the library decided."""
import os, vlib


def run(ck):
    q = ck.tier == "quick"
    vlib.clean(ck.wd)
    duck = vlib.build_duck()
    n = 2 if q else 3
    ck.rule = ("leg A: Cli.tla: every script of up to %d statements over {echo, crash, exit 3, exit 0, unparsable line, unknown command, command "
               "spelled with an upper-case letter} x label / output variable absent / lower case / with an upper-case letter x every invocation "
               "form (file, -e, --eval, -l, --lint, --version, --help, -h; missing file for the file forms): LintNeverRuns, RunMirrorsLibrary; "
               "leg B: the real duck binary (built from /repo's tree) run as a subprocess on every (form, script): exit status, 'Error:' line, "
               "whether the planted marker statement ran, number of echo lines, and stdout equal to the in-process library run's captured output; "
               "leg C: random scripts up to 10 statements x random forms validated by TLC. distinct_nontrivial = distinct (form, script) runs" % n)
    a = vlib.tlc("C20_MC", "C20_A.cfg" if q else "C20_A3.cfg", ck.wd, workers=4, timeout=3000)
    ck.add_tlc(a, "A: scripts up to %d statements x forms" % n)
    s = vlib.vh_json(["c20-replay", a.out_path, ck.wd, duck], timeout=6000)
    ck.traces += s["runs"]; ck.evaluations += s["runs"]; ck.distinct += s["runs"]
    for b in s["bad"]:
        ck.violation("cli:%s:%s" % (b["form"], b.get("outcome", "?")), "duck %s on %r: %s" % (b["form"], b.get("script", ""), b["why"][:300]), b)
    for x in s["samples"]:
        ck.sample(x)
    ck.notes["legB"] = {"scripts": s["scripts"], "subprocess_runs": s["runs"], "binary": duck}
    os.remove(a.out_path)
    ck.cmds.append("cargo build -p duckscript_cli; tlc C20_A*.cfg C20_MC.tla; vh c20-replay; vh c20-record; tlc C20_Trace.tla")
    m = 800 if q else 20000
    tr = os.path.join(ck.wd, "c20_trace.ndjson")
    vlib.vh_json(["c20-record", ck.seed, m, tr, ck.wd, duck], timeout=6000)
    r, k, viol, drift = vlib.trace_validate("C20_Trace", "Trace.cfg", ck.wd, tr, timeout=3000)
    if k != m:
        raise vlib.ToolError("trace validation consumed %d of %d" % (k, m))
    ck.add_tlc(r, "C: %d random runs" % m)
    ck.traces += m; ck.evaluations += m; ck.distinct += m
    for v in viol:
        ck.violation("cli:%s:C" % v["form"], "duck %s: observed %s expected %s same_output=%s script %s" % (v["form"], v["obs"], v["exp"], v["same_output"], v["script"]), v)
    ck.notes["legC"] = {"runs": m, "seed": ck.seed}
    ck.assumptions += ["the REPL form (no arguments) is not exercised", "stdout is compared line-wise with the 'Error:' line removed"]
