"""C14 - including files is equivalent to pasting them in place, with provenance kept."""
import os, vlib


def replay(ck, cfg, label):
    a = vlib.tlc("C14_MC", cfg, ck.wd, workers=8, timeout=3000)
    ck.add_tlc(a, label)
    s = vlib.vh_json(["c14-replay", a.out_path, ck.wd], timeout=3000)
    ck.traces += s["trees"] + s["runs"]; ck.evaluations += s["trees"] + 2 * s["runs"]; ck.distinct += s["trees"]
    for b in s["bad"]:
        exp = b.get("expected", {})
        ck.violation("include:%s" % ("run" if b["why"].startswith("run_script_file") else ("error-report" if isinstance(exp, dict) and "err" in exp else "flatten")),
                     "%s: tree %s got %s expected %s" % (b["why"], b["tree"], str(b.get("got", b.get("file_run")))[:300], str(exp)[:300]), b)
    for x in s["samples"][:2]:
        ck.sample(x)
    os.remove(a.out_path)
    return {"cfg": cfg, "trees": s["trees"], "error_free_trees_run": s["runs"]}


def run(ck):
    q = ck.tier == "quick"
    vlib.clean(ck.wd)
    ck.rule = ("leg A: every acyclic include tree built one line per step (3 files x <=2 lines with missing-file and malformed-line errors; 4 files x "
               "<=2 lines error-free; directives listing one or two files, the same file twice, first/last line): Flatten = Paste on executed "
               "instructions, provenance, first error named; leg B: each tree materialised (nested directories with spaces, references written "
               "relative / ./ / .. / absolute in rotation), parse_file compared entry by entry (file, own line, kind) or error (file, line), and "
               "run_script_file compared with run_script of the pasted text; leg C: random trees over 6 files (depth <=5, up to 3 files per "
               "directive, errors planted at random lines) validated by TLC. distinct_nontrivial = distinct trees with >=1 include directive")
    legb = [replay(ck, "C14_A.cfg", "A/B: 3 files, errors planted")]
    legb.append(replay(ck, "C14_B.cfg" if q else "C14_B3.cfg", "A/B: 4 files, error-free"))
    ck.notes["legB"] = legb
    ck.cmds.append("tlc C14_A.cfg/C14_B.cfg C14_MC.tla; vh c14-replay; vh c14-record; tlc C14_Trace.tla")
    n = 3000 if q else 60000
    tr = os.path.join(ck.wd, "c14_trace.ndjson")
    s = vlib.vh_json(["c14-record", ck.seed, n, tr, ck.wd], timeout=3000)
    r, k, viol, drift = vlib.trace_validate("C14_Trace", "Trace.cfg", ck.wd, tr, timeout=3000)
    if k != n:
        raise vlib.ToolError("trace validation consumed %d of %d" % (k, n))
    ck.add_tlc(r, "C: %d random trees, %d lines" % (n, s["lines"]))
    ck.traces += n; ck.evaluations += s["lines"]; ck.distinct += n
    for v in viol:
        ck.violation("include:large:%s" % ("error-report" if "err" in v["exp"] else "flatten"), "tree %s: got %s expected %s" % (str(v["tree"])[:300], str(v["got"])[:300], str(v["exp"])[:300]), v)
    ck.notes["legC"] = {"trees": n, "lines": s["lines"], "seed": ck.seed}
    ck.assumptions += ["acyclic include trees only (a cycle is C07's subject)", "the root file is given by its canonical absolute path"]
