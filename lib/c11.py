"""C11 - variable commands and the scope stack behave like a map and a stack of maps."""
import os, vlib


def run(ck):
    q = ck.tier == "quick"
    vlib.clean(ck.wd)
    ck.rule = ("leg A: complete reachable state graph of VarScope over 3 names (one under prefix p::), 2 values, scope-stack depth <=1 "
               "(quick) / <=2 (thorough), 40 operations per state incl. --copy lists with undefined and duplicated names; leg B: one replay per "
               "transition on the real SDK (command output, whole variable map, every saved map of the scope stack observed by popping a "
               "clone); leg C: random histories over 12 names (prefixed, non-ASCII, with a space) and Unicode values, every step validated "
               "by TLC. distinct_nontrivial = distinct transitions + recorded steps")
    cfg = "C11_A1.cfg" if q else "C11_A2.cfg"
    a = vlib.tlc("C11_MC", cfg, ck.wd, workers=8, timeout=3400, xmx="12g")
    ck.add_tlc(a, "A: %s (complete state graph)" % cfg)
    s = vlib.vh_json(["c11-replay", a.out_path], timeout=7000)
    ck.traces += s["transitions"]; ck.evaluations += s["transitions"] + s["states"]; ck.distinct += s["transitions"]
    for b in s["bad"]:
        op = b.get("op", {})
        ck.violation("varscope:%s:%s%s" % (b["kind"], op.get("cmd", "-"), ":panic" if "PANIC" in str(b["why"]) else ""),
                     "after %s, %s: %s" % ([o["cmd"] for o in b["path"]], op, str(b["why"])[:400]), b)
    for x in s["samples"]:
        ck.sample(x)
    ck.notes["legB"] = {"states": s["states"], "transitions": s["transitions"], "unreachable_states": s["unreachable_states"]}
    os.remove(a.out_path)
    ck.cmds.append("tlc -config %s C11_MC.tla; vh c11-replay; vh c11-record; tlc C11_Trace.tla" % cfg)
    nh, ln = (120, 200) if q else (1500, 600)
    tr = os.path.join(ck.wd, "c11_trace.ndjson")
    s = vlib.vh_json(["c11-record", ck.seed, nh, ln, tr], timeout=3400)
    for b in s["bad"]:
        ck.violation("varscope:run:%s%s" % (b["cmd"], ":panic" if "PANIC" in b["why"] else ""), "%s %s: %s" % (b["cmd"], b["args"], b["why"]), b)
    r, k, viol, drift = vlib.trace_validate("C11_Trace", "Trace.cfg", ck.wd, tr, timeout=3400, boundary=lambda x: x.get("ev") == "reset")
    if k != s["events"]:
        raise vlib.ToolError("trace validation consumed %d of %d" % (k, s["events"]))
    ck.add_tlc(r, "C: trace validation of %d steps" % s["events"])
    ck.traces += s["histories"]; ck.evaluations += s["events"]; ck.distinct += s["events"]
    for v in viol:
        ck.violation("varscope:trace:%s" % v["cmd"], "history %s: %s %s -> output ok=%s vars ok=%s stack ok=%s" % (
            v["hist"], v["cmd"], [vlib.uncps(a) for a in v["args"]], v["outok"], v["varsok"], v["stackok"]), v)
    ck.notes["legC"] = {"histories": s["histories"], "steps": s["events"], "seed": ck.seed}
    ck.assumptions += ["outputs documented as None (scope_push_stack / scope_pop_stack return true) are compared by success class only",
                       "for a name undefined when copied on pop only absence of a failure and the rest of the map are constrained"]
