"""C08 - parsing is total, one instruction per line, malformed lines rejected in place."""
import os, vlib


def run(ck):
    q = ck.tier == "quick"
    wd = ck.wd
    vlib.clean(wd)
    ck.rule = ("leg A/B: every line over 13 character classes up to length L (one state per line) checked in the model and "
               "replayed into parse_text (total, one instruction per line numbered 1, blank/comment => empty; exact result = drift "
               "check); every single-defect malformed line of Syntax!Malformed planted at 5 positions x LF/CRLF among random good lines; "
               "leg C: random Unicode / syntax-soup texts validated by Parser!ParseText. distinct_nontrivial = distinct non-blank lines "
               "+ distinct malformed lines + recorded texts")
    a = vlib.tlc("C08_MC", "C08_A.cfg" if q else "C08_A5.cfg", wd, workers=10, timeout=3000)
    ck.add_tlc(a, "A: all lines up to length %d" % (4 if q else 5))
    ck.exhaustive = True
    s = vlib.vh_json(["c08-replay", a.out_path])
    ck.traces += s["lines"]; ck.evaluations += s["lines"]; ck.distinct += s["lines"]
    for b in s["bad"]:
        ck.violation("total:" + str(b["got"].get("t")), "line %r -> %s (%s)" % (b["line"], b["got"], b["why"]), b)
    if s["drift"]:
        ck.drift += s["drift_examples"]
    ck.notes["legB_lines"] = {"lines": s["lines"], "rejected": s["rejected"], "drift": s["drift"]}
    os.remove(a.out_path)
    b = vlib.tlc("C08_Bad", "C08_Bad1.cfg" if q else "C08_Bad.cfg", wd, workers=4, timeout=1800)
    ck.add_tlc(b, "A: single-defect malformed lines")
    s = vlib.vh_json(["c08-malformed", b.out_path, ck.seed])
    ck.traces += s["scripts"]; ck.evaluations += s["scripts"]; ck.distinct += s["malformed_lines"]
    for x in s["bad"]:
        ck.violation("malformed:%s" % x["defect"], "defect %s at line %d: expected %s got %s" % (x["defect"], x["position"], x["expected"], x["got"]), x)
    for x in s["samples"]:
        ck.sample(x)
    ck.notes["legB_malformed"] = {"malformed_lines": s["malformed_lines"], "scripts": s["scripts"]}
    os.remove(b.out_path)
    n = 6000 if q else 120000
    tr = os.path.join(wd, "c08_trace.ndjson")
    s = vlib.vh_json(["c08-record", ck.seed, n, tr])
    for x in s["bad"]:
        ck.violation("total:panic-long-line", x["why"], x)
    recs = sum(1 for _ in open(tr))
    r, m, viol, drift = vlib.trace_validate("C08_Trace", "Trace.cfg", wd, tr, timeout=3000)
    if m != recs:
        raise vlib.ToolError("trace validation consumed %d of %d records" % (m, recs))
    ck.add_tlc(r, "C: trace validation of %d texts" % recs)
    ck.traces += recs; ck.evaluations += recs; ck.distinct += recs
    for v in viol:
        ck.violation("total:C:" + str(v["got"].get("t")), "text %r -> %s" % (vlib.uncps(v["text"])[:200], str(v["got"])[:300]), v)
    ck.drift += [{"text": vlib.uncps(d["text"])[:200], "model": d["model"], "real": d["real"]} for d in drift[:10]]
    ck.notes["legC"] = {"texts": recs, "chars": s["chars"], "seed": ck.seed}
    ck.assumptions += ["texts contain no !include_files directive (the property's 'without include directives'); includes are C14"]
