#!/usr/bin/env python3
"""lib/seedconfirm.py <ID> : confirm a seeded change kept under /verif/seeded/<ID>/ :
 with the patch applied to /repo the repository's own suite still passes (1001 stable tests) and the demonstration fails;
 without it the demonstration passes. /repo is always restored. Results are merged into seeded/<ID>/meta.json."""
import subprocess, sys, os, json, glob, shutil
sid = sys.argv[1]
d = os.path.join("/verif/seeded", sid)
patch = os.path.join(d, "patch.diff")
def sh(cmd, timeout=1800):
    p = subprocess.run(cmd, shell=True, capture_output=True, text=True, timeout=timeout)
    return p.returncode, (p.stdout + p.stderr)[-1500:]
assert not subprocess.run("git -C /repo status --porcelain", shell=True, capture_output=True, text=True).stdout.strip(), "/repo not clean"
demos_ds = sorted(glob.glob(os.path.join(d, "demo*.ds")))
demos_rs = sorted(glob.glob(os.path.join(d, "*demo*.rs")))
def run_demo():
    out = {}
    rc, o = sh("cd /repo && cargo build -q --offline -p duckscript_cli 2>&1 | tail -3")
    for f in demos_ds:
        rc, o = sh("cd %s && timeout 20 /repo/target/debug/duck %s" % (d, f), 60)
        out[os.path.basename(f)] = {"exit": rc, "tail": o[-300:]}
    for f in demos_rs:
        crate = "duckscript" if "duckscript::parser" in open(f).read() and "duckscriptsdk" not in open(f).read() else "duckscript_sdk"
        tdir = "/repo/%s/tests" % crate
        os.makedirs(tdir, exist_ok=True)
        name = os.path.basename(f)[:-3]
        shutil.copy(f, os.path.join(tdir, name + ".rs"))
        pkg = "duckscript" if crate == "duckscript" else "duckscriptsdk"
        rc, o = sh("cd /repo && timeout 900 cargo test --offline -p %s --test %s 2>&1 | tail -15" % (pkg, name), 1000)
        ok = "test result: ok" in o
        out[os.path.basename(f)] = {"passes": ok, "tail": o[-400:]}
        os.remove(os.path.join(tdir, name + ".rs"))
        if not os.listdir(tdir):
            os.rmdir(tdir)
    return out
res = {}
try:
    rc, o = sh("git -C /repo apply %s" % patch)
    assert rc == 0, "patch does not apply: " + o
    rc, o = sh("/verif/lib/baseline.py")
    res["suite_with_change"] = o.strip().splitlines()[0] if o.strip() else str(rc)
    res["suite_passes_with_change"] = (rc == 0)
    res["demo_with_change"] = run_demo()
finally:
    sh("git -C /repo checkout -- . && git -C /repo clean -fdq -- duckscript duckscript_sdk duckscript_cli")
res["demo_without_change"] = run_demo()
mp = os.path.join(d, "meta.json")
meta = json.load(open(mp)) if os.path.exists(mp) else {}
meta["confirmed_by_framework_author"] = res
json.dump(meta, open(mp, "w"), indent=1)
print(json.dumps(res, indent=1)[:1500])
