"""C12 - arrays, maps and sets behind handles behave like their plain counterparts."""
import os, vlib


def run(ck):
    q = ck.tier == "quick"
    vlib.clean(ck.wd)
    ck.rule = ("leg A: complete reachable state graph of Handles (handle id -> vector / key-value map / set; ids never reused) over 2 handle slots, collection size <=2 "
               "(thorough adds 3 slots with size <=1), values {u, @h1 (the handle text of h1 as a value), ''}, ~200 operations per state (every listed command x live / released / never-"
               "issued / wrong-kind handles x indexes 0,1,2,3,non-numeric): FailedOpChangesNothing, IdsNeverReused; leg B: per-transition replay on "
               "the real SDK - after every step every collection ever created is re-read through the public commands (length/get, keys/get, "
               "set_to_array, is_array/is_map/is_set) and the whole table compared; quick replays a rotating 1/10 of each state's transitions; "
               "leg C: random histories (up to 40 handles, Unicode / empty / handle-looking values, use after release, kind confusion) validated "
               "by TLC. distinct_nontrivial = distinct transitions replayed + recorded steps")
    # quick: 2 handle slots, collections up to 2 elements, a rotating tenth of every state's transitions;
    # thorough: the same graph with every transition, then 3 handle slots with collections up to 1 element, every third transition
    # (3 slots x 2 elements is 158 000 states x ~250 operations: eleven hours of replay and a 12 GB case file)
    ck.notes["legB"] = []
    for cfg, every in ([("C12_A.cfg", 10)] if q else [("C12_A.cfg", 1), ("C12_A3s.cfg", 3)]):
        a = vlib.tlc("C12_MC", cfg, ck.wd, workers=8, timeout=5000, xmx="16g", tag=cfg[:-4])
        ck.add_tlc(a, "A: %s (complete state graph)" % cfg)
        s = vlib.vh_json(["c12-replay", a.out_path, every], timeout=20000)
        ck.traces += s["transitions"]; ck.evaluations += s["transitions"] + s["states"]; ck.distinct += s["transitions"]
        for b in s["bad"]:
            op = b.get("op", {})
            ck.violation("handles:%s:%s%s" % (b["kind"], op.get("cmd", "-"), ":panic" if "PANIC" in str(b["why"]) else ""),
                         "after %s, %s: %s" % ([o["cmd"] for o in b["path"]], op, str(b["why"])[:400]), b)
        for x in s["samples"]:
            ck.sample(x)
        ck.notes["legB"].append({"cfg": cfg, "states": s["states"], "transitions_replayed": s["transitions"], "fraction_of_transitions": "1/%d" % every})
        os.remove(a.out_path)
        ck.cmds.append("tlc -config %s C12_MC.tla; vh c12-replay" % cfg)
    ck.cmds.append("vh c12-record; tlc C12_Trace.tla")
    nh, ln = (40, 150) if q else (800, 400)
    tr = os.path.join(ck.wd, "c12_trace.ndjson")
    s = vlib.vh_json(["c12-record", ck.seed, nh, ln, tr], timeout=10000)
    r, k, viol, drift = vlib.trace_validate("C12_Trace", "C12_Trace.cfg", ck.wd, tr, timeout=5000)
    if k != s["events"]:
        raise vlib.ToolError("trace validation consumed %d of %d" % (k, s["events"]))
    ck.add_tlc(r, "C: %d histories, %d steps" % (s["histories"], s["events"]))
    ck.traces += s["histories"]; ck.evaluations += s["events"]; ck.distinct += s["events"]
    for v in viol:
        ck.violation("handles:trace:%s%s" % (v["cmd"], ":panic" if "PANIC" in v["err"] else ""), "history %s: %s %s %s -> out %r (expected %s) output ok=%s table ok=%s %s" % (
            v["hist"], v["cmd"], v["h"], v["args"], v["out"], v["expout"], v["outok"], v["tableok"], v["err"]), v)
    ck.notes["legC"] = {"histories": s["histories"], "steps": s["events"], "seed": ck.seed}
    ck.assumptions += ["set_put / map_put outputs ('True if a new value was pushed/inserted'; the code returns true also for an existing value) are compared by success class",
                       "arrays made from a set or from map keys hold the elements in an unspecified order (compared as permutations / normalised by the harness)"]
